"""Per-property wording for MANIFEST.json."""
HOOK_COMMITS = ["146c602", "100f0bc"]
NOTES = ("Technique: machine-checked proof in Coq 8.16.1 about a hand-written executable model, tied to /repo by a "
         "correspondence check (extracted OCaml model vs. the Go implementation on the same inputs) that runs on "
         "every check.  See DESIGN.md.")
NOT_YET = {
}
COMMON_NOTE = ("Trusted: Coq kernel, ExtrOcamlBasic extraction, hand-written OCaml/Go glue; the model is hand-written and "
               "tied to /repo by differential execution (testing) on generated inputs, not by proof.")
GW_NOTE = (COMMON_NOTE + " The gateway model is event-atomic (one packet/timer handled to completion); the Go scheduler, "
           "paho's MQTT codec, errgroup/context and timers are assumed to behave as documented.")
TEXT = {
    "C20": {
        "level": "Theorems C20_decoding_never_panics / C20_no_panic_site: in the decoder model every Go index and slice "
                 "expression of Header.Unpack, ReadPacket and the 28 Unpack methods is an explicit bounds-checked access "
                 "that yields Panic when Go would; the theorem shows no byte string reaches one (no length bound needed). "
                 "The model is compared with ReadPacket under recover() on exhaustive short datagrams and structural/"
                 "random streams on every run; a panic observed in the implementation is reported with the datagram.",
        "note": COMMON_NOTE,
        "technique": "Coq theorem over all byte strings (bounds-checked decoder model) + differential execution against packets1.ReadPacket",
    },
    "C21": {
        "level": "Theorem C21_round_trip: for every packet value satisfying the boolean legal-range predicate wf_pkt, "
                 "decoding the model's encoding returns the packet, the announced length equals the size, the short "
                 "length form is used iff size <= 255, size <= 8192; C21_short_topic_bijection for all 65 536 IDs / all "
                 "2-byte names. The encoder model (with uint16 wrap-around) is compared byte-for-byte with Pack on "
                 "constructor-built packets of all 28 types on every run.",
        "note": COMMON_NOTE,
        "technique": "Coq theorem over all packet values in legal ranges + differential execution against Pack/ReadPacket",
    },
    "C22": {
        "level": "Theorem C22_decoded_reflects_datagram: for every byte string the decoder model accepts, the decoded packet is "
                 "what an independent positional reference parser (written from the MQTT-SN tables, header form chosen by the "
                 "first octet, flags by bit position) reads, and re-encoding reproduces type and body up to mask_ignored. The "
                 "decoder/encoder models are compared with ReadPacket/Pack on every run and the reference parser is applied to "
                 "the implementation's own decoded fields.",
        "note": COMMON_NOTE,
        "technique": "Coq theorem relating the decoder model to an independent reference parser + differential execution",
    },
    "C29": {
        "level": "Theorems C29_*: the sequential specification of IDSequence for all ranges (j-th call = min + j mod n, overflow "
                 "exactly after a wrap, no duplicates in a cycle), the map laws of the store and independence of its two key "
                 "spaces, and that every schedule of atomic calls is the sequential history. Atomicity of each call rests on the "
                 "lock skeleton regenerated from the source on every run (whole method body under Lock/defer Unlock).",
        "note": COMMON_NOTE + " Partial: linearizability rests on Go mutex semantics plus the skeleton check, not on a proof about the Go memory model.",
        "technique": "Coq theorems (induction over calls, map laws) + lock-skeleton extraction from source + differential execution incl. concurrent callers",
    },
    "C18": {
        "level": "Theorems C18_*: over ALL event sequences of the transaction model — where an event is one mutex-protected region "
                 "and EvFire is the timer callback body running at an arbitrary moment (stale or early) — completion happens at "
                 "most once, and once done Err, the completion count, the callback count and the timer are frozen. The schedule "
                 "quantifier is carried by the lock skeleton regenerated from transactions/*.go; sequential behaviour is compared "
                 "with the real types under synctest.",
        "note": COMMON_NOTE + " Partial: interleavings are over mutex-region atomicity; data races are outside the model (sleepTransaction's unsynchronised timer field is a known finding).",
        "technique": "Coq invariant over all event sequences incl. arbitrary timer firings + lock-skeleton extraction + differential execution",
    },
    "C19": {
        "level": "Theorems C19_*: for all retry counts and delays, callbacks at exactly t0+k*delay (k=1..count) and failure with "
                 "'no more retries' at t0+(count+1)*delay, progress resets the budget, time slicing is irrelevant, a timed "
                 "transaction times out exactly at its timeout. Virtual timestamps of the real transactions under synctest are "
                 "compared exactly with the model.",
        "note": COMMON_NOTE,
        "technique": "Coq theorems by induction on the retry budget + differential execution with exact virtual timestamps",
    },
    "C27": {
        "level": "Theorem C27_match_is_mqtt_matching: the client's matcher decides the MQTT 3.1.1 matching relation for every "
                 "well-formed filter and every name (by induction); dispatch candidates are exactly the stored matching routes; "
                 "a removed route's callback is no candidate. client.match is compared exhaustively over a small alphabet and "
                 "the client model (subscribe/unsubscribe/deliver) with the real client.",
        "note": COMMON_NOTE,
        "technique": "Coq theorem (matcher = inductive MQTT matching relation) + exhaustive small-alphabet comparison + client correspondence",
    },
    "C30": {
        "level": "Theorems C30_*: one function tool_cfg describes all three tools; its result is the file's map overridden entry by "
                 "entry by the options, later options win, options without client ID land under '*'. The call-site skeleton of "
                 "the three actions.go is regenerated from source and the real binaries are run on generated files/options, "
                 "observing topic IDs / names on the wire.",
        "note": COMMON_NOTE + " YAML and flag parsing libraries are exercised, not modelled.",
        "technique": "Coq theorems over finite maps + call-site skeleton extraction + running the three binaries over loopback",
    },
    "C31": {
        "level": "Theorems C31_*: the start-up guards imply that auth/user without DTLS requires --insecure; guard expressions "
                 "are regenerated from source; the binaries are run with all flag/env combinations; the client model sends AUTH "
                 "right after every CONNECT iff a user is configured (checker on real client traces).",
        "note": COMMON_NOTE,
        "technique": "Coq theorems on the guard functions + guard skeleton extraction + running the binaries + client correspondence",
    },
    "C32": {
        "level": "Theorem C32_routing_consistent: for every shared configuration an ID derived from a name (any map order) or a "
                 "short ID is resolved back to that name by the gateway model, and the (type, ID) the gateway model picks is "
                 "resolved to the broker's name by the client model (corollary of C05 and the short-topic bijection of C21). "
                 "Tied by the topics, codec and CLI correspondences (real bisquitt-pub/-sub vs real gateway).",
        "note": COMMON_NOTE,
        "technique": "Coq corollary across the client and gateway models + differential execution of topics/codec + CLI cross-check",
    },
    "C14": {
        "level": "Theorem C14_step: from ANY session state of the gateway model, a step writes an MQTT DISCONNECT only when "
                 "the event is the client's DISCONNECT datagram without duration (hence for every history: C14_histories). "
                 "The model is compared output-by-output with the real handler1 on generated session histories "
                 "(including every termination cause) and the extracted checker runs on the implementation's trace.",
        "note": GW_NOTE,
        "technique": "Coq step lemma over all states/events of the gateway model + differential execution of handler1 under synctest",
    },
    "C05": {
        "level": "Theorem C05_lookups_consistent (Properties/C05.v) proves, for every configuration, client ID, topic ID and "
                 "name, the by-ID precedence rule and that every ID GetTopicID can return under any map iteration order reads "
                 "back as the same name (and that a name some ID denotes is found). The model of topics.PredefinedTopics is "
                 "compared with the real package on generated overlapping configurations and topics.yaml on every run, and "
                 "the statement itself is evaluated on the implementation's answers.",
        "note": COMMON_NOTE + " Go map iteration order is modelled as the set of all possible results.",
        "technique": "Coq theorem over all configurations (finite maps, std++) + differential execution against topics package",
    },
}

STEP_NOTE = (" Statements are per step with the model state before the step as context (checker chk_Cxx, extracted and applied to the "
             "implementation's observations) and are lifted to every history by induction over the event list (run_all).")
TEXT.update({
    "C01": {
        "level": "Theorems C01_forward_exact / C01_never_forward_unknown: from ANY running session state a decodable PUBLISH the session "
                 "accepts, whose topic ID denotes (specification `denotes`: registered / predefined for this client / decoded short "
                 "name) a name valid in MQTT, makes the step write exactly one MQTT PUBLISH with the same DUP, retain, payload (any "
                 "length), QoS (-1 -> 0), message ID and that name; an ID that denotes nothing is never forwarded. "
                 "C01_checker_sound / C01_all_histories: the executable statement accepts every step of every history.",
        "note": GW_NOTE + STEP_NOTE,
        "technique": "Coq step theorems over all states and field values (no invariant needed) + differential execution of handler1 under synctest",
    },
    "C02": {
        "level": "Theorem C02_checker_sound_partial / C02_all_histories: in every reachable state with an active client, the step "
                 "handling a broker PUBLISH writes one MQTT-SN PUBLISH with the same payload/QoS/retain under an ID the CLIENT can "
                 "resolve (short decoding, shared predefined map, or a registered ID it was told: ghost list of REGACK/SUBACK/REGISTER) "
                 "or a REGISTER for the name followed, at the client's REGACK, by the PUBLISH with that ID - except in the two classes "
                 "recorded as known findings (ID allocated for a SUBSCRIBE whose SUBACK is pending / was refused), which C02_refuted "
                 "shows to be real in the faithful model and the check reproduces on the implementation.",
        "note": GW_NOTE + STEP_NOTE + " Partial: the property is violated by the pinned code in the two recorded classes.",
        "technique": "Coq invariant (ghost client view) + per-step theorem 'every failure is a known class' + refutation witness + differential execution",
    },
    "C03": {
        "level": "Theorem C03_checker_sound / C03_all_histories: in every reachable state the ten translations (SUBSCRIBE, UNSUBSCRIBE, "
                 "PUBREL, PINGREQ, DISCONNECT(0) to MQTT; PUBREC, PUBCOMP, UNSUBACK, SUBACK, PINGRESP to MQTT-SN) produce exactly one "
                 "packet of the paired type with the same message ID, the filter the topic ID denotes, the requested QoS; SUBACK is "
                 "accepted iff the broker's code is 0-2 and carries that code and the ID allocated at SUBSCRIBE time.",
        "note": GW_NOTE + STEP_NOTE,
        "technique": "Coq per-step theorem over all reachable states and field values (invariant: stored topic IDs are 16-bit) + differential execution",
    },
    "C04": {
        "level": "Theorems C04_checker_sound / C04_side_condition_invariant / C04_all_histories: for every history of any length "
                 "(induction; exhausting the 65534 IDs costs nothing) every topic ID told to the client lies in 1..0xFFFE, is not a "
                 "predefined ID of the session's client ID, never denotes two names (ghost list of all pairs told), and after "
                 "exhaustion nothing new is allocated - for histories in which the peer does not re-CONNECT under another client ID "
                 "once IDs are in use; that excluded class is refuted on the model (C04_refuted) and recorded as a known finding.",
        "note": GW_NOTE + STEP_NOTE + " Partial: the client-ID-change class is excluded (known finding).",
        "technique": "Coq invariant over all histories (ID sequence + ghost hand-out list) + refutation witness + differential execution incl. exhaustion histories",
    },
    "C07": {
        "level": "Theorems C07_checker_sound / C07_all_histories / C07_connected_implies_accepted: in every reachable state a session "
                 "that is not Disconnected was accepted by the broker (ghost flag set only by the broker's CONNACK(0) for the pending "
                 "exchange); before that, CONNACK 'accepted' is never written and nothing but the exchange's CONNECT, the DISCONNECT "
                 "answering a plain DISCONNECT and the QoS -1 exception reaches the broker.",
        "note": GW_NOTE + STEP_NOTE,
        "technique": "Coq invariant over all reachable states + per-step theorem + differential execution of pre-connect histories",
    },
    "C08": {
        "level": "Theorems C08_checker_sound / C08_all_histories: every MQTT CONNECT carries, with authentication enabled, exactly the "
                 "credentials of the well-formed PLAIN AUTH of the current exchange (ghost gw_auth_seen) and, disabled, exactly the "
                 "configured ones whatever AUTH the client sends; an unknown method is answered CONNACK 'not supported' without CONNECT. "
                 "One excluded step class (client asleep inside its own re-CONNECT exchange, the CONNACK is queued and lost), shown exact "
                 "by C08_excluded_is_rejected and recorded as a known finding.",
        "note": GW_NOTE + STEP_NOTE + " Partial: one excluded class (known finding).",
        "technique": "Coq invariant over the connect-exchange automaton + per-step theorem + differential execution of exchange orderings",
    },
    "C09": {
        "level": "Theorems C09_checker_sound / C09_all_histories: WILLTOPICREQ only for a CONNECT with the Will flag, WILLMSGREQ only in the "
                 "step handling the awaited WILLTOPIC, at most one MQTT CONNECT per step and only when the exchange is complete, carrying "
                 "exactly the client's will topic/QoS/retain/message, no will without the flag, CONNACK code table. Excluded: the wake-up "
                 "flush of a client that fell asleep inside its own exchange (the queued WILL*REQ is written then; the order is "
                 "unchanged, the per-step clause cannot attribute it; C11 checks the flush).",
        "note": GW_NOTE + STEP_NOTE,
        "technique": "Coq invariant over the connect-exchange automaton + per-step theorem + differential execution of exchange orderings",
    },
    "C11": {
        "level": "Theorems C11_checker_sound / C11_all_histories / C11_asleep_again: while the client is asleep a step writes it nothing "
                 "unless it handles its PINGREQ, CONNECT or DISCONNECT; the PINGREQ step writes exactly the buffered packets once, in "
                 "arrival order, then PINGRESP, and leaves the client asleep with an empty buffer - for every sleep cycle (any state). "
                 "Excluded and refuted on the model (C11_refuted), recorded as a known finding: the broker's CONNACK for a re-CONNECT "
                 "that was pending when the client announced sleep.",
        "note": GW_NOTE + STEP_NOTE + " Partial: event-atomic model; the unsynchronised access to pktBuffer by two goroutines (schedule part of the property) is outside it.",
        "technique": "Coq per-step theorem over all reachable states + refutation witness + differential execution of sleep/wake cycles",
    },
    "C24": {
        "level": "Theorems C24_checker_sound / C24_all_histories: every MQTT packet a step writes satisfies mqtt_valid (QoS <= 2, PUBLISH "
                 "topic non-empty without wildcards, non-zero packet identifiers where required, non-empty filters, CONNECT will flag "
                 "iff non-empty will topic, no password without user) for ALL client input, under a sane configuration and a "
                 "conforming broker (hypotheses wf_cfg', wf_event'). On the implementation the bytes on the broker connection are "
                 "validated by the harness's own MQTT 3.1.1 parser, independent of paho.",
        "note": GW_NOTE + STEP_NOTE,
        "technique": "Coq invariant (everything stored for later sending is sendable/valid) + per-step theorem + independent MQTT parser on the implementation's byte stream",
    },
})

TEXT.update({
    "C23": {
        "level": "Theorems C23_gateway_* and C23_client_*: every datagram a step of the gateway model / the client-library model writes "
                 "decodes (decoder model of C20-C22) as a packet type valid in its direction, its length field equals its size, and the "
                 "size is at most 8192 - for every history, arbitrary peer input, broker payloads and API arguments of any size. Both "
                 "models are compared datagram by datagram with the real handler1 / Client and the checker runs on their own datagrams.",
        "note": GW_NOTE + STEP_NOTE,
        "technique": "Coq invariants (everything stored for later sending encodes to a decodable datagram) + per-step theorems for both components + differential execution",
    },
    "C17": {
        "level": "Theorems C17_checker_sound / C17_all_histories: for every behaviour of gateway and link (arbitrary event histories: "
                 "loss = retry timers fire, duplication, reordering), Publish(QoS 1/2) returns nil only on the accepting PUBACK resp. "
                 "PUBCOMP-after-PUBREC for its own message ID, every timer-driven PUBLISH/SUBSCRIBE carries DUP=1, every PUBREL - also for a "
                 "finished exchange - is answered with exactly one PUBCOMP of the same ID. The retransmitted datagrams (message ID included) "
                 "and return values/times are compared exactly with the real Client under synctest.",
        "note": COMMON_NOTE + " The client model is event-atomic; KeepAlive = 0 in generated histories. Side condition: harness call identifiers are not reused while pending." + STEP_NOTE.replace("gateway", "client"),
        "technique": "Coq per-step theorem over all reachable client states and all gateway/link behaviours + differential execution of the real Client with scripted lossy gateway",
    },
})

TEXT["C28"] = {
    "level": "Theorem C28_all_histories (cmon_sound): for EVERY history of the client model - API calls at any time, any datagram "
             "of the gateway (expected, unexpected, stale, duplicated, undecodable) at any time, silence of any length - every "
             "blocking API call returns by call_bound (ConnectTimeout x (RetryCount+1) for Connect, one retry budget for Register / "
             "Subscribe / Unsubscribe / Ping / Publish QoS 1 / Disconnect / Close, two for Publish QoS 2, budget + sleep duration + "
             "PINGRESP wait for Sleep, plus the receive loop's poll interval) and after Close or the gateway's DISCONNECT the client "
             "has exited by the same budget. Proved by an invariant tying every pending call to a live transaction timer whose "
             "remaining retries fit the deadline. Return values, return times and the exit time of the real Client under synctest "
             "are compared with the model, the monitor runs on the implementation's times, and goroutines outliving the client are "
             "reported by the driver.",
    "note": COMMON_NOTE + " The client model is event-atomic; KeepAlive = 0 in generated histories (the keep-alive loop is C33). Side "
            "conditions: harness call identifiers are not reused while pending (cl_fresh); the model's timer fuel is not exhausted "
            "(adv_ok). Two genuine defects found by this proof were repaired (c6f47ca, 141cd10 earlier; e8edbf4: a repeated "
            "DISCONNECT restarted the sleep timer without bound)." + STEP_NOTE.replace("gateway", "client"),
    "technique": "Coq invariant proof over all client histories (all gateway behaviours) + differential execution of the real Client under virtual time with goroutine-leak detection",
}

TEXT["C15"] = {
    "level": "Theorem C15_non_interference: in the multi-session gateway model (one session per peer address, shared read-only "
             "configuration, common clock) the outputs for one peer under ANY interleaving of the events of any number of peers equal "
             "the outputs of a gateway serving that peer alone (induction over the interleaving). The theorem is immediate for the "
             "model because sessions share only the configuration; that the CODE shares nothing else is tied by running three real "
             "sessions created from one shared handler configuration concurrently and comparing each with the single-session model.",
    "note": GW_NOTE + " Partial: isolation of the code rests on the correspondence runs (testing) and on the event-atomic driving; concurrent schedules inside the Go runtime are not enumerated.",
    "technique": "Coq non-interference theorem over all interleavings + differential execution of concurrent real sessions sharing one configuration",
}

TEXT["C25"] = {
    "level": "Theorems C25_gateway_never_crashes / C25_client_never_crashes: in the models the only crash outcomes of a session step "
             "are the bounds-checked accesses of packet decoding, and no history reaches one (C20's theorem lifted to every event "
             "history of both components); every other panic-capable expression of gateway/, client/, transactions/, util/ is "
             "enumerated from the source on every run and accounted for in coq/panic_sites.md; all stateful driver runs (single, "
             "concurrent sessions, client) record process crashes with the history that caused them.",
    "note": GW_NOTE + " Partial: outside the codec the absence of panics rests on the census (syntactic: assertions, index/slice expressions, panic/close) plus the recorded justifications and on the runs, not on a proof; nil dereferences and data races (e.g. a timer firing before its field is assigned) are covered by the runs only.",
    "technique": "Coq theorem (decode is the only crash outcome of a step; none reachable) + panic-site census regenerated from source + crash recording on all stateful differential runs",
}

TEXT["C06"] = {
    "level": "Theorems C06_gateway_refuted / C06_client_refuted: the faithful models violate the property (store keyed by message ID "
             "only); the witnesses are replayed on the real gateway (corpus) and client on every run and reported as known findings. "
             "Theorem C06_gateway_only_interference_fails: in EVERY gateway history the only exchanges whose acknowledgement is not "
             "relayed are those during whose life an exchange of the other direction used the same message ID (invariant tying the "
             "monitor's book of exchanges to the store, the timers and the exchange states). A "
             "monitor that tracks the exchanges of both directions by direction AND message ID, independently of the gateway's store, "
             "runs on every implementation trace: a lost acknowledgement outside the recorded interference class is a violation. "
             "Theorem C06_register_step_only_interference_fails: a second monitor (Checkers/ChkGw6.v) books the REGISTER step of broker "
             "exchanges; in EVERY history the PUBLISH is written at the client's accepted REGACK unless a client exchange with the "
             "same message ID started during the step - acknowledgements of earlier exchanges with that ID never disturb it.",
    "note": GW_NOTE + " Partial: both components violate the property in the interference class (recorded findings); the positive theorems (gateway: all histories; client: every step from any state) show that nothing else fails; the schedule part of the quantifier is outside the event-atomic models.",
    "technique": "Coq refutation theorems with replayed witnesses + direction-aware exchange monitor on the implementation traces + differential execution",
}

MON_NOTE = (" The statement is a monitor (Checkers/ChkGw3.v) folded over a history next to the model; the theorem is proved for all "
            "histories by an invariant tying the monitor to the model state; the same monitor is extracted and fed with the "
            "implementation's observations (virtual ms under synctest).")
TEXT.update({
    "C10": {
        "level": "Theorem C10_all_histories: for every history, once a connect exchange is pending (any prefix of any exchange shape, "
                 "CONNACK outstanding included) the session has ended - Run returned, broker connection closed - by 5000 + 100 ms "
                 "after the client's last packet, whatever client and broker do or do not send; end times of the real handler1 are "
                 "compared exactly with the model.",
        "note": GW_NOTE + MON_NOTE + " Side condition: executable clock_ok (the model's timer fuel is not exhausted).",
        "technique": "Coq invariant over all timed histories (monitor + timers of the step function) + differential execution with exact virtual end times",
    },
    "C13": {
        "level": "Theorem C13_all_histories: for every history and every point at which a termination cause occurs (shutdown, plain "
                 "DISCONNECT, broker EOF/garbage, undecodable or illegal packet), Run returns within 100 ms and the client gets a "
                 "DISCONNECT datagram exactly when it was active or awake and did not disconnect itself. Goroutine exit is observed "
                 "on the implementation (synctest leak detection + goroutine census on every history), not modelled.",
        "note": GW_NOTE + MON_NOTE + " Partial: 'no goroutine outlives the session' is an observation of the runs, not a theorem.",
        "technique": "Coq invariant over all timed histories + differential execution with exact virtual end times + goroutine census",
    },
    "C34": {
        "level": "Theorems C34_refuted / C34_partial: under the property's broker assumption a session outlives its vanished client only "
                 "while the gateway writes to the broker on its own; the model refutes this (sleep pinger cancelled only by its own "
                 "timer; witness replayed on the implementation, known finding) and satisfies it for every history in which, while a "
                 "pinger is scheduled, the session stays asleep and no new sleep is announced (executable c34_excluded).",
        "note": GW_NOTE + MON_NOTE + " Partial: one excluded class (known finding).",
        "technique": "Coq refutation witness + partial invariant theorem over all timed histories + differential execution of long-sleep / vanishing-client histories",
    },
    "C12": {
        "level": "Theorems C12_refuted_*: the faithful model violates the property in three independent ways (local-only traffic of an "
                 "active client; sleep not longer than the keep-alive; first ping a full period after the DISCONNECT), each a timed "
                 "witness reproduced on the implementation (known findings by clause and client state). Proved part: traffic of an "
                 "active client that has an MQTT translation reaches the broker in the same step; a pinger writes PINGREQ every "
                 "keep-alive period. The monitor reports any 1.5 x keep-alive window without a broker write for a compliant client.",
        "note": GW_NOTE + MON_NOTE + " Partial: the property does not hold of the pinned code; only step lemmas are proved positively.",
        "technique": "Coq refutation witnesses + step lemmas + keep-alive window monitor on the implementation traces",
    },
})

TEXT["C33"] = {
    "level": "The keep-alive loop is modelled as a wrapper around the client model (ticker, pending tick, capacity-1 state channel, "
             "the loop blocked inside c.ping()). Theorem C33_loop_pings_only_when_active: in EVERY history inside the sequential model "
             "the loop starts a ping only at an instant at which the client is active (invariant over the wrapper + frame lemmas "
             "about cl_step). Refutations with witnesses replayed on the real client in every run: a ping unanswered at sleep time is "
             "retransmitted while asleep (33,2); the loop's ping takes the store slot of an API Ping call, which then fails (33,3). "
             "Theorem C33_pingreq_at_least_every_period: in every such history a live active client never goes longer than "
             "max(KeepAlive, RetryDelay) without a PINGREQ (clause (33,1); invariant tying the monitor to the ticker and to the "
             "retry timer of the loop's ping; executable side conditions on call identifiers and model fuel). The real Client with KeepAlive 1-3 s is compared "
             "output-by-output with the wrapper model under synctest.",
    "note": COMMON_NOTE + " Partial. Outside the model, nothing stated: a state change while the loop is inside a ping and the channel "
            "already holds an unread change (the sender blocks in notifyStateChange), and Go's select choosing between a pending tick "
            "and a pending state change; histories reaching these are counted (outside_keepalive_model) and neither compared nor "
            "judged from that point. The harness builds with Go 1.26 timer-channel semantics (Stop/Reset discard a pending tick); "
            "/repo's go.mod (go 1.16) selects the older semantics in production builds, under which a stale tick survives Stop.",
    "technique": "Coq invariant proof over the keep-alive wrapper of the client model, refutation witnesses, and differential execution of the real Client with the keep-alive loop running under virtual time with a monitor",
}

TEXT["C26"] = {
    "level": "Theorems about the composed system (client model + lossless link + gateway model + specification broker, run to "
             "quiescence after every event): C26_connect_then_simple_calls / C26_and_final_disconnect - for ALL configurations "
             "(no authentication / will), call identifiers, short topic names and payloads every program Connect; c1..cn [; "
             "Disconnect] of Ping and Publish QoS 0/1 calls succeeds call by call with exactly one nil return and exactly the "
             "documented packet at the broker; C26_subscriptions_and_delivery - programs that also Subscribe on short topics and "
             "receive broker messages QoS 0/1 on them: every broker message reaches EXACTLY ONE handler invocation of the right "
             "subscription with its topic, payload and flags and is acknowledged; C26_programs_with_register_qos2_unsubscribe - the "
             "same with Register, Publish at QoS 0-2 on registered names and Unsubscribe, ending with the registrations of client "
             "and gateway and the subscriptions of client and broker equal to the program's; "
             "C26_message_on_a_new_topic_is_registered_and_delivered - one broker message on a name without topic ID is registered "
             "and delivered; C26_sleep_cycle_delivers_every_message_once / C26_repeated_sleep_cycles - for every sleep duration of at "
             "least a second, any list of broker messages QoS 0 on subscribed short topics arriving during the sleep and any "
             "number of further cycles: Sleep sends DISCONNECT(duration), nothing reaches the client while it sleeps, at exactly "
             "now + duration the PINGREQ with the client ID is sent, every message reaches its handler exactly once in order, "
             "Sleep returns nil once (exact traces); C26_sleep_cycle_with_a_qos1_message - a QoS 1 message during a sleep shorter than the "
             "gateway's RetryDelay: one PUBLISH at the wake-up, one handler invocation, one PUBACK at the broker (C26_sleep_cycle_with_qos1_messages: "
             "any list of such messages with distinct IDs, delivered once each and in order); "
             "C26_sleep_cycle_with_a_qos2_message_holds_the_PUBREL - a QoS 2 message: PUBLISH and PUBREC at the wake-up, the broker's "
             "PUBREL is queued for the session that is asleep again, the handler runs at the NEXT wake-up (exact trace of what model "
             "and code do; an observation, see DESIGN.md section 11); "
             "C26_qos2_message_is_delivered_once_over_two_sleep_cycles - with a second cycle that wakes before the PUBREL retry the "
             "handler runs exactly once and the broker gets PUBREC then PUBCOMP; C26_ping_in_the_awake_state / "
             "C26_sleep_cycle_then_ping - Ping after a sleep cycle is answered by the gateway itself, flushes what was buffered "
             "(each message once, in order) and returns nil; C26_refuted - two broker messages in flight on one not-yet-registered topic: only "
             "one reaches the handler (recorded finding, witness on the real code in every run). The other API calls, sleep "
             "cycles with several QoS 2 messages, mixed QoS or over a lossy link and handler delivery on wildcard / predefined topics are NOT proved: the monitor clauses (26,1)-(26,4) check them on the real client + real "
             "gateway against the composed model on generated programs incl. bursts in flight.",
    "note": COMMON_NOTE + " Partial: the theorems cover Connect / Ping / Register / Publish QoS 0-2 on short and registered names / Subscribe and Unsubscribe on short names / broker messages QoS 0-1 on them / Disconnect programs (no wildcards, no predefined topics, no time passing) and sleep cycles with QoS 0 broker messages on short topics; everything else of the property is tested against the composed model, not proved. The broker is a specification broker (MQTT 3.1.1 routing), not mosquitto.",
    "technique": "Coq theorems about the composed client+gateway+broker model for a class of API programs, a refutation witness, and end-to-end differential execution of the real client and gateway with a monitor",
}

TEXT["C16"] = {
    "level": "Theorems C16_*: (safety, proved) while the budget lasts the gateway's retry timer writes exactly the stored REGISTER / "
             "PUBLISH / PUBREL with DUP set (same message ID, topic, payload) and re-arms RetryDelay later; after RetryCount "
             "unanswered retransmissions it writes nothing and removes the exchange; the client answers every PUBREL, also for a "
             "finished exchange, with one PUBCOMP; every acknowledgement step of a broker-publish exchange is relayed. (Liveness) "
             "C16_qos1_delivered_within_the_retry_budget: in the composed system a broker QoS 1 message on a subscribed short topic "
             "is delivered and acknowledged to the broker under ANY pattern of lost PUBLISHes / PUBACKs of at most RetryCount rounds "
             "(exact traces; the bound is sharp); C16_qos2_survives_any_loss_pattern: a QoS 2 message completes on both sides, the "
             "handler run EXACTLY once and the broker receiving exactly PUBREC then PUBCOMP, under ANY pattern of at most RetryCount "
             "failed rounds in each of the two phases (PUBLISH/PUBREC, PUBREL/PUBCOMP; a round loses the gateway's datagram or the "
             "client's answer); C16_qos2_completes_exactly_once_with_one_loss (the four single-loss positions, exact traces); "
             "C16_new_topic_qos1_survives_any_loss_pattern: the REGISTER step too - a QoS 1 message on a name without topic ID under any "
             "pattern of at most RetryCount failed rounds in the REGISTER/REGACK phase and in the PUBLISH/PUBACK phase is delivered "
             "(handler once per PUBLISH that arrives: QoS 1 is at-least-once), acknowledged to the broker exactly once, and client and "
             "gateway end with the same new registration; C16_new_topic_qos2_survives_register_losses: the same REGISTER phase before a "
             "QoS 2 flow under the registered ID (handler exactly once); C16_register_step_survives_a_lost_regack (single-loss positions); "
             "C16_sleep_survives_a_lost_disconnect_reply (a lost reply to the sleep DISCONNECT does not split the session). Arbitrary QoS 2 loss "
             "patterns and duplication are checked by the end-to-end monitor on "
             "the real client + real gateway joined by a lossy link, against the composed model.",
    "note": COMMON_NOTE + " Partial: liveness is proved for QoS 1 and QoS 2 on short topics under any loss pattern within the budget, incl. the REGISTER step of a QoS 1 message; duplication and losses in the QoS 2 phases that follow a REGISTER step are tested (generated fault lists within and beyond the budget), not proved.",
    "technique": "Coq step lemmas on the retry timer (gateway) and PUBREL handling (client) + end-to-end differential execution over a lossy link with a liveness monitor",
}
