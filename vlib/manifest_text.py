"""Per-property wording for MANIFEST.json."""
HOOK_COMMITS = []
NOTES = ("Technique: machine-checked proof in Coq 8.16.1 about a hand-written executable model, tied to /repo by a "
         "correspondence check (extracted OCaml model vs. the Go implementation on the same inputs) that runs on "
         "every check.  See DESIGN.md.")
NOT_YET = {}
COMMON_NOTE = ("Trusted: Coq kernel, ExtrOcamlBasic extraction, hand-written OCaml/Go glue; the model is hand-written and "
               "tied to /repo by differential execution (testing) on generated inputs, not by proof.")
TEXT = {
    "C05": {
        "level": "Theorem C05_lookups_consistent (Properties/C05.v) proves, for every configuration, client ID, topic ID and "
                 "name, the by-ID precedence rule and that every ID GetTopicID can return under any map iteration order reads "
                 "back as the same name (and that a name some ID denotes is found). The model of topics.PredefinedTopics is "
                 "compared with the real package on generated overlapping configurations and topics.yaml on every run, and "
                 "the statement itself is evaluated on the implementation's answers.",
        "note": COMMON_NOTE + " Go map iteration order is modelled as the set of all possible results.",
        "technique": "Coq theorem over all configurations (finite maps, std++) + differential execution against topics package",
    },
}
