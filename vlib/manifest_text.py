"""Per-property wording for MANIFEST.json."""
HOOK_COMMITS = ["146c602", "100f0bc"]
NOTES = ("Technique: machine-checked proof in Coq 8.16.1 about a hand-written executable model, tied to /repo by a "
         "correspondence check (extracted OCaml model vs. the Go implementation on the same inputs) that runs on "
         "every check.  See DESIGN.md.")
NOT_YET = {}
COMMON_NOTE = ("Trusted: Coq kernel, ExtrOcamlBasic extraction, hand-written OCaml/Go glue; the model is hand-written and "
               "tied to /repo by differential execution (testing) on generated inputs, not by proof.")
GW_NOTE = (COMMON_NOTE + " The gateway model is event-atomic (one packet/timer handled to completion); the Go scheduler, "
           "paho's MQTT codec, errgroup/context and timers are assumed to behave as documented.")
TEXT = {
    "C20": {
        "level": "Theorems C20_decoding_never_panics / C20_no_panic_site: in the decoder model every Go index and slice "
                 "expression of Header.Unpack, ReadPacket and the 28 Unpack methods is an explicit bounds-checked access "
                 "that yields Panic when Go would; the theorem shows no byte string reaches one (no length bound needed). "
                 "The model is compared with ReadPacket under recover() on exhaustive short datagrams and structural/"
                 "random streams on every run; a panic observed in the implementation is reported with the datagram.",
        "note": COMMON_NOTE,
        "technique": "Coq theorem over all byte strings (bounds-checked decoder model) + differential execution against packets1.ReadPacket",
    },
    "C21": {
        "level": "Theorem C21_round_trip: for every packet value satisfying the boolean legal-range predicate wf_pkt, "
                 "decoding the model's encoding returns the packet, the announced length equals the size, the short "
                 "length form is used iff size <= 255, size <= 8192; C21_short_topic_bijection for all 65 536 IDs / all "
                 "2-byte names. The encoder model (with uint16 wrap-around) is compared byte-for-byte with Pack on "
                 "constructor-built packets of all 28 types on every run.",
        "note": COMMON_NOTE,
        "technique": "Coq theorem over all packet values in legal ranges + differential execution against Pack/ReadPacket",
    },
    "C22": {
        "level": "Theorem C22_decoded_reflects_datagram: for every byte string the decoder model accepts, the decoded packet is "
                 "what an independent positional reference parser (written from the MQTT-SN tables, header form chosen by the "
                 "first octet, flags by bit position) reads, and re-encoding reproduces type and body up to mask_ignored. The "
                 "decoder/encoder models are compared with ReadPacket/Pack on every run and the reference parser is applied to "
                 "the implementation's own decoded fields.",
        "note": COMMON_NOTE,
        "technique": "Coq theorem relating the decoder model to an independent reference parser + differential execution",
    },
    "C29": {
        "level": "Theorems C29_*: the sequential specification of IDSequence for all ranges (j-th call = min + j mod n, overflow "
                 "exactly after a wrap, no duplicates in a cycle), the map laws of the store and independence of its two key "
                 "spaces, and that every schedule of atomic calls is the sequential history. Atomicity of each call rests on the "
                 "lock skeleton regenerated from the source on every run (whole method body under Lock/defer Unlock).",
        "note": COMMON_NOTE + " Partial: linearizability rests on Go mutex semantics plus the skeleton check, not on a proof about the Go memory model.",
        "technique": "Coq theorems (induction over calls, map laws) + lock-skeleton extraction from source + differential execution incl. concurrent callers",
    },
    "C18": {
        "level": "Theorems C18_*: over ALL event sequences of the transaction model — where an event is one mutex-protected region "
                 "and EvFire is the timer callback body running at an arbitrary moment (stale or early) — completion happens at "
                 "most once, and once done Err, the completion count, the callback count and the timer are frozen. The schedule "
                 "quantifier is carried by the lock skeleton regenerated from transactions/*.go; sequential behaviour is compared "
                 "with the real types under synctest.",
        "note": COMMON_NOTE + " Partial: interleavings are over mutex-region atomicity; data races are outside the model (sleepTransaction's unsynchronised timer field is a known finding).",
        "technique": "Coq invariant over all event sequences incl. arbitrary timer firings + lock-skeleton extraction + differential execution",
    },
    "C19": {
        "level": "Theorems C19_*: for all retry counts and delays, callbacks at exactly t0+k*delay (k=1..count) and failure with "
                 "'no more retries' at t0+(count+1)*delay, progress resets the budget, time slicing is irrelevant, a timed "
                 "transaction times out exactly at its timeout. Virtual timestamps of the real transactions under synctest are "
                 "compared exactly with the model.",
        "note": COMMON_NOTE,
        "technique": "Coq theorems by induction on the retry budget + differential execution with exact virtual timestamps",
    },
    "C27": {
        "level": "Theorem C27_match_is_mqtt_matching: the client's matcher decides the MQTT 3.1.1 matching relation for every "
                 "well-formed filter and every name (by induction); dispatch candidates are exactly the stored matching routes; "
                 "a removed route's callback is no candidate. client.match is compared exhaustively over a small alphabet and "
                 "the client model (subscribe/unsubscribe/deliver) with the real client.",
        "note": COMMON_NOTE,
        "technique": "Coq theorem (matcher = inductive MQTT matching relation) + exhaustive small-alphabet comparison + client correspondence",
    },
    "C30": {
        "level": "Theorems C30_*: one function tool_cfg describes all three tools; its result is the file's map overridden entry by "
                 "entry by the options, later options win, options without client ID land under '*'. The call-site skeleton of "
                 "the three actions.go is regenerated from source and the real binaries are run on generated files/options, "
                 "observing topic IDs / names on the wire.",
        "note": COMMON_NOTE + " YAML and flag parsing libraries are exercised, not modelled.",
        "technique": "Coq theorems over finite maps + call-site skeleton extraction + running the three binaries over loopback",
    },
    "C31": {
        "level": "Theorems C31_*: the start-up guards imply that auth/user without DTLS requires --insecure; guard expressions "
                 "are regenerated from source; the binaries are run with all flag/env combinations; the client model sends AUTH "
                 "right after every CONNECT iff a user is configured (checker on real client traces).",
        "note": COMMON_NOTE,
        "technique": "Coq theorems on the guard functions + guard skeleton extraction + running the binaries + client correspondence",
    },
    "C32": {
        "level": "Theorem C32_routing_consistent: for every shared configuration an ID derived from a name (any map order) or a "
                 "short ID is resolved back to that name by the gateway model, and the (type, ID) the gateway model picks is "
                 "resolved to the broker's name by the client model (corollary of C05 and the short-topic bijection of C21). "
                 "Tied by the topics, codec and CLI correspondences (real bisquitt-pub/-sub vs real gateway).",
        "note": COMMON_NOTE,
        "technique": "Coq corollary across the client and gateway models + differential execution of topics/codec + CLI cross-check",
    },
    "C14": {
        "level": "Theorem C14_step: from ANY session state of the gateway model, a step writes an MQTT DISCONNECT only when "
                 "the event is the client's DISCONNECT datagram without duration (hence for every history: C14_histories). "
                 "The model is compared output-by-output with the real handler1 on generated session histories "
                 "(including every termination cause) and the extracted checker runs on the implementation's trace.",
        "note": GW_NOTE,
        "technique": "Coq step lemma over all states/events of the gateway model + differential execution of handler1 under synctest",
    },
    "C05": {
        "level": "Theorem C05_lookups_consistent (Properties/C05.v) proves, for every configuration, client ID, topic ID and "
                 "name, the by-ID precedence rule and that every ID GetTopicID can return under any map iteration order reads "
                 "back as the same name (and that a name some ID denotes is found). The model of topics.PredefinedTopics is "
                 "compared with the real package on generated overlapping configurations and topics.yaml on every run, and "
                 "the statement itself is evaluated on the implementation's answers.",
        "note": COMMON_NOTE + " Go map iteration order is modelled as the set of all possible results.",
        "technique": "Coq theorem over all configurations (finite maps, std++) + differential execution against topics package",
    },
}
