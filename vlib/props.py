"""props.py — per-property registry: theorems, drivers, correspondence units."""
import os

from . import core
from .runner import Unit


def sh_lines(cmd, cwd=None, timeout=3000, env=None):
    rc, out, _ = core.run(cmd, cwd=cwd, timeout=timeout, env=env)
    return rc, out.splitlines()


def budget(ctx, quick, thorough):
    return thorough if ctx.tier in ("thorough", "escalate") else quick


def cached(path):
    return os.path.exists(path) and os.path.getsize(path) > 0


# ------------------------------------------------------------------ topics (C05, C30, C32)

def unit_topics(ctx):
    d = core.shared_dir("topics", ctx.tier, ctx.seed)
    res = os.path.join(d, "topics.res")
    obs = os.path.join(d, "topics.obs")
    if not cached(res):
        n = budget(ctx, 300, 6000)
        rc, out, _ = core.run("%s -seed %d -n %d -repo %s > %s" % (ctx.bin("drv_topics"), ctx.seed, n, core.REPO, obs))
        if rc != 0:
            return {"lines": [], "error": "drv_topics failed: " + out}
        rc, out, _ = core.run("%s chk-topics %s > %s.tmp && mv %s.tmp %s" % (core.DRIVER, obs, res, res, res))
        if rc != 0:
            return {"lines": [], "error": "chk-topics failed: " + out[-2000:]}
    return {"lines": open(res).read().splitlines(), "inputs": obs}


# ------------------------------------------------------------------ codec (C20, C21, C22)

def unit_codec(ctx):
    d = core.shared_dir("codec", ctx.tier, ctx.seed)
    res = os.path.join(d, "codec.res")
    obs = os.path.join(d, "codec.obs")
    if not cached(res):
        n = budget(ctx, 3000, 60000)
        len3 = budget(ctx, 0, 16)
        corpus = os.path.join(core.VERIF, "corpus", "codec.txt")
        rc, out, _ = core.run("%s -seed %d -n %d -len3 %d -corpus %s > %s" % (
            ctx.bin("drv_codec"), ctx.seed, n, len3, corpus, obs))
        if rc != 0:
            return {"lines": [], "error": "drv_codec failed: " + out[-2000:]}
        rc, out, _ = core.run("%s chk-codec %s > %s.tmp && mv %s.tmp %s" % (core.DRIVER, obs, res, res, res))
        if rc != 0:
            return {"lines": [], "error": "chk-codec failed: " + out[-2000:]}
    return {"lines": open(res).read().splitlines(), "inputs": obs}


# ------------------------------------------------------------------ gateway sessions

def run_gw_driver(ctx, hist, trace):
    """Run drv_gw.test over a history file; a crash (panic in a gateway goroutine) kills the
    process, so restart after the history that crashed and record the crash in the trace."""
    start = 0
    open(trace, "w").close()
    for _ in range(200):
        rc, out, _ = core.run("%s -hist %s -out %s -start %d" % (ctx.bin("drv_gw.test"), hist, trace, start),
                              timeout=3000)
        if rc == 0:
            return None
        # find the last history that was started
        last = None
        with open(trace) as f:
            for line in f:
                if line.startswith("H "):
                    last = int(line.split()[1])
        if last is None or last < start:
            return "drv_gw failed before running any history: " + out[-2000:]
        msg = "unknown"
        for ln in out.splitlines():
            if ln.startswith("panic:") or "fatal error" in ln:
                msg = ln.strip().replace(" ", "_")
                break
        with open(trace, "a") as f:
            f.write("X PANIC process-crashed:%s\nEND\n" % msg)
        start = last + 1
    return "drv_gw crashed too many times"


def unit_gw(ctx):
    d = core.shared_dir("gw", ctx.tier, ctx.seed)
    res = os.path.join(d, "gw.res")
    hist = os.path.join(d, "gw.hist")
    trace = os.path.join(d, "gw.impl")
    if not cached(res):
        n = budget(ctx, 3000, 60000)
        corpus = os.path.join(core.VERIF, "corpus", "gw.hist")
        rc, out, _ = core.run("%s gen-gw %d %d %s.gen" % (core.DRIVER, ctx.seed, n, hist))
        if rc != 0:
            return {"lines": [], "error": "gen-gw failed: " + out[-2000:]}
        # corpus histories first (indices from 1000000 up), then the generated ones
        core.run("cat %s %s.gen > %s 2>/dev/null || cp %s.gen %s" % (corpus, hist, hist, hist, hist))
        err = run_gw_driver(ctx, hist, trace)
        if err:
            return {"lines": [], "error": err}
        rc, out, _ = core.run("%s cmp-gw %s %s > %s.tmp && mv %s.tmp %s" % (core.DRIVER, hist, trace, res, res, res))
        if rc != 0:
            return {"lines": [], "error": "cmp-gw failed: " + out[-2000:]}
    return {"lines": open(res).read().splitlines(), "inputs": hist}


GW_RULE = ("model-guided random walks of one gateway session (ocaml/gen_gw.ml: 4 profiles - general, connect/auth "
           "exchange, sleep cycles, broker publishes with retries; client datagrams, broker packets, virtual-time "
           "advances around timer deadlines, every termination cause), executed on the real handler1 under "
           "testing/synctest with in-memory connections and compared output-by-output (bytes and virtual ms) with the "
           "extracted model; an event is non-trivial when the implementation produced at least one output for it, "
           "distinct by (configuration, event, outputs)")
GW_ASSUME = ["event-atomic driving: each datagram/packet/timer is handled to completion before the next (synctest.Wait)",
             "paho MQTT encoding/decoding, errgroup, context, sync primitives and Go timers behave as documented",
             "histories in which two timers (or a timer and an injected event) fall on the same virtual instant are not generated"]

PROPS = {
    "C05": {
        "theorems": ["C05_lookups_consistent"],
        "drivers": ["drv_topics"],
        "units": [Unit("drv_topics", unit_topics)],
        "rule": "generated predefined-topic maps (0-3 clients from {c1,c2,*,''} x 0-4 entries over 7 names x 6 IDs, "
                "deliberately overlapping) plus the repository's topics.yaml; every client x ID and client x name "
                "lookup; GetTopicID asked 6 times per query so several map iteration orders are seen; an "
                "observation is non-trivial when the lookup returns a value",
        "assumptions": ["Go map lookup semantics; yaml.v3 decoding (exercised through topics.yaml, not modelled)"],
    },
    "C20": {
        "theorems": ["C20_decoding_never_panics", "C20_no_panic_site"],
        "drivers": ["drv_codec"],
        "units": [Unit("drv_codec", unit_codec)],
        "mismatch_kinds": [r"decode class", r"driver error", r"bad D line"],
        "rule": "all datagrams of length 0-2 exhaustively (65 793); thorough: 3-byte datagrams with every 16th third byte; "
                "structural stream (type bytes x both header forms x body lengths 0-9 x flag bytes, AUTH method-length "
                "bytes 0-255 x body sizes, long-form headers announcing 0-300); encodings of constructor-built packets "
                "and their mutations (bit flips, truncation, extension); random strings up to 8192 B; the corpus of "
                "former crashers runs first; non-trivial = decodes successfully",
        "assumptions": ["ReadPacket is driven through a bytes.Reader (one Read = one datagram) under recover()"],
    },
    "C21": {
        "theorems": ["C21_round_trip", "C21_short_topic_bijection", "C21_checker_sound"],
        "drivers": ["drv_codec"],
        "units": [Unit("drv_codec", unit_codec)],
        "mismatch_kinds": [r"^pack", r"decode\(pack\)", r"ShortTopic", r"chk_short", r"driver error", r"pack failed"],
        "rule": "packets of all 28 types built through the exported constructors/setters with boundary and random field "
                "values (u8/u16 pools, lengths 0-9, 246-261, 1000, 7160-7168, oversize), Pack compared byte-for-byte with "
                "the model, ReadPacket of the result compared with the original; all 65 536 short topic IDs; "
                "non-trivial = the packet satisfies wf_pkt (legal ranges)",
        "assumptions": ["packets are built by the exported constructors and setters, as library users do"],
    },
    "C14": {
        "theorems": ["C14_step", "C14_histories", "C14_checker_sound"],
        "drivers": ["drv_gw.test"],
        "units": [Unit("drv_gw", unit_gw)],
        "mismatch_kinds": [r"MQ:DISCONNECT", r"^(CLOSE|SNCLOSE|END|TIME)", r"PANIC", r"MISSING-", r"EXTRA (CLOSE|END)",
                           r"MISSING (CLOSE|END)"],
        "rule": GW_RULE,
        "assumptions": GW_ASSUME,
    },
}
