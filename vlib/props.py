"""props.py — per-property registry: theorems, drivers, correspondence units."""
import os

from . import core
from .runner import Unit


def sh_lines(cmd, cwd=None, timeout=3000, env=None):
    rc, out, _ = core.run(cmd, cwd=cwd, timeout=timeout, env=env)
    return rc, out.splitlines()


def budget(ctx, quick, thorough):
    return thorough if ctx.tier in ("thorough", "escalate") else quick


def cached(path):
    return os.path.exists(path) and os.path.getsize(path) > 0


# ------------------------------------------------------------------ topics (C05, C30, C32)

def unit_topics(ctx):
    d = core.shared_dir("topics", ctx.tier, ctx.seed)
    res = os.path.join(d, "topics.res")
    obs = os.path.join(d, "topics.obs")
    if not cached(res):
        n = budget(ctx, 300, 6000)
        rc, out, _ = core.run("%s -seed %d -n %d -repo %s > %s" % (ctx.bin("drv_topics"), ctx.seed, n, core.REPO, obs))
        if rc != 0:
            return {"lines": [], "error": "drv_topics failed: " + out}
        rc, out, _ = core.run("%s chk-topics %s > %s.tmp && mv %s.tmp %s" % (core.DRIVER, obs, res, res, res))
        if rc != 0:
            return {"lines": [], "error": "chk-topics failed: " + out[-2000:]}
    return {"lines": open(res).read().splitlines(), "inputs": obs}


# ------------------------------------------------------------------ codec (C20, C21, C22)

def unit_codec(ctx):
    d = core.shared_dir("codec", ctx.tier, ctx.seed)
    res = os.path.join(d, "codec.res")
    obs = os.path.join(d, "codec.obs")
    if not cached(res):
        n = budget(ctx, 3000, 60000)
        len3 = budget(ctx, 0, 16)
        corpus = os.path.join(core.VERIF, "corpus", "codec.txt")
        rc, out, _ = core.run("%s -seed %d -n %d -len3 %d -corpus %s > %s" % (
            ctx.bin("drv_codec"), ctx.seed, n, len3, corpus, obs))
        if rc != 0:
            return {"lines": [], "error": "drv_codec failed: " + out[-2000:]}
        rc, out, _ = core.run("%s chk-codec %s > %s.tmp && mv %s.tmp %s" % (core.DRIVER, obs, res, res, res))
        if rc != 0:
            return {"lines": [], "error": "chk-codec failed: " + out[-2000:]}
    return {"lines": open(res).read().splitlines(), "inputs": obs}


# ------------------------------------------------------------------ gateway sessions

def run_gw_driver(ctx, hist, trace):
    """Run drv_gw.test over a history file; a crash (panic in a gateway goroutine) kills the
    process, so restart after the history that crashed and record the crash in the trace."""
    start = 0
    open(trace, "w").close()
    for _ in range(200):
        rc, out, _ = core.run("%s -hist %s -out %s -start %d" % (ctx.bin("drv_gw.test"), hist, trace, start),
                              timeout=3000)
        if rc == 0:
            return None
        # find the last history that was started
        last = None
        with open(trace) as f:
            for line in f:
                if line.startswith("H "):
                    last = int(line.split()[1])
        if last is None or last < start:
            return "drv_gw failed before running any history: " + out[-2000:]
        msg = "unknown"
        for ln in out.splitlines():
            if ln.startswith("panic:") or "fatal error" in ln:
                msg = ln.strip().replace(" ", "_")
                break
        with open(trace, "a") as f:
            f.write("X PANIC process-crashed:%s\nEND\n" % msg)
        start = last + 1
    return "drv_gw crashed too many times"


def unit_gw(ctx):
    d = core.shared_dir("gw", ctx.tier, ctx.seed)
    res = os.path.join(d, "gw.res")
    hist = os.path.join(d, "gw.hist")
    trace = os.path.join(d, "gw.impl")
    if not cached(res):
        n = budget(ctx, 3000, 60000)
        corpus = os.path.join(core.VERIF, "corpus", "gw.hist")
        rc, out, _ = core.run("%s gen-gw %d %d %s.gen" % (core.DRIVER, ctx.seed, n, hist))
        if rc != 0:
            return {"lines": [], "error": "gen-gw failed: " + out[-2000:]}
        # corpus histories first (indices from 1000000 up), then the generated ones
        core.run("cat %s %s.gen > %s 2>/dev/null || cp %s.gen %s" % (corpus, hist, hist, hist, hist))
        err = run_sharded(ctx.bin("drv_gw.test"), hist, trace, "drv_gw")
        if err:
            return {"lines": [], "error": err}
        rc, out, _ = core.run("%s cmp-gw %s %s > %s.tmp && mv %s.tmp %s" % (core.DRIVER, hist, trace, res, res, res))
        if rc != 0:
            return {"lines": [], "error": "cmp-gw failed: " + out[-2000:]}
    return {"lines": open(res).read().splitlines(), "inputs": hist}



# ------------------------------------------------------------------ skeleton (L3)

def unit_skeleton(pattern):
    """Regenerate the lock / call-site skeleton from /repo and compare the lines matching
    `pattern` with coq/skeleton.expected."""
    import re

    def fn(ctx):
        rc, out, _ = core.run("%s -repo %s" % (ctx.bin("skeleton"), core.REPO))
        if rc != 0:
            return {"lines": [], "error": "skeleton failed: " + out[-2000:]}
        rx = re.compile(pattern)
        got = [l for l in out.splitlines() if rx.search(l)]
        exp = [l for l in open(os.path.join(core.COQ, "skeleton.expected")).read().splitlines() if rx.search(l)]
        lines = []
        for l in sorted(set(exp) - set(got)):
            lines.append("MISMATCH SKELETON missing :: " + l)
        for l in sorted(set(got) - set(exp)):
            lines.append("MISMATCH SKELETON unexpected :: " + l)
        lines.append("STAT evaluations=%d nontrivial=%d" % (len(got), len(got)))
        lines.append("SUMMARY skeleton facts=%d expected=%d differing=%d" % (len(got), len(exp), len(lines) - 1))
        if got:
            lines.append("SAMPLE " + got[0])
        return {"lines": lines, "inputs": os.path.join(core.COQ, "skeleton.expected")}
    return fn


# ------------------------------------------------------------------ util / txn / match / cli / client

def unit_util(ctx):
    d = core.shared_dir("util", ctx.tier, ctx.seed)
    res, obs = os.path.join(d, "util.res"), os.path.join(d, "util.obs")
    if not cached(res):
        n = budget(ctx, 300, 3000)
        full = "-full" if ctx.tier in ("thorough", "escalate") else ""
        rc, out, _ = core.run("%s -seed %d -n %d %s > %s" % (ctx.bin("drv_util"), ctx.seed, n, full, obs))
        if rc != 0:
            return {"lines": [], "error": "drv_util failed: " + out[-2000:]}
        rc, out, _ = core.run("%s chk-util %s > %s.tmp && mv %s.tmp %s" % (core.DRIVER, obs, res, res, res))
        if rc != 0:
            return {"lines": [], "error": "chk-util failed: " + out[-2000:]}
    return {"lines": open(res).read().splitlines(), "inputs": obs}


def run_restarting(binary, hist, trace, what):
    """Run a synctest driver; restart after a history whose code under test crashed the process."""
    start = 0
    open(trace, "w").close()
    for _ in range(200):
        rc, out, _ = core.run("%s -hist %s -out %s -start %d" % (binary, hist, trace, start), timeout=3000)
        if rc == 0:
            return None
        last = None
        with open(trace) as f:
            for line in f:
                if line.startswith("H "):
                    last = int(line.split()[1])
        if last is None or last < start:
            return "%s failed before running any history: %s" % (what, out[-2000:])
        msg = "unknown"
        for ln in out.splitlines():
            if ln.startswith("panic:") or "fatal error" in ln:
                msg = ln.strip().replace(" ", "_")
                break
        with open(trace, "a") as f:
            f.write("X PANIC process-crashed:%s\nEND\n" % msg)
        start = last + 1
    return what + " crashed too many times"


def run_sharded(binary, hist, trace, what, shards=14):
    """Split a history file into `shards` files (whole histories, round-robin), run one driver
    process per file in parallel (each restarts after a crash as run_restarting does) and
    concatenate the traces.  The analysers index histories by their number, so order is free."""
    from concurrent.futures import ThreadPoolExecutor
    blocks, cur = [], []
    with open(hist) as f:
        for line in f:
            cur.append(line)
            if line.strip() == "END":
                blocks.append(cur)
                cur = []
    if len(blocks) < 4 * shards:
        return run_restarting(binary, hist, trace, what)
    # corpus histories carry indices >= 1000000 and come first: keep each shard sorted by index
    parts = [[] for _ in range(shards)]
    for k, b in enumerate(blocks):
        parts[k % shards].append(b)
    jobs = []
    for k, part in enumerate(parts):
        hp, tp = "%s.s%d" % (hist, k), "%s.s%d" % (trace, k)
        part.sort(key=lambda b: int(b[0].split()[1]))
        with open(hp, "w") as f:
            for b in part:
                f.writelines(b)
        jobs.append((hp, tp))
    with ThreadPoolExecutor(max_workers=shards) as ex:
        errs = list(ex.map(lambda j: run_restarting(binary, j[0], j[1], what), jobs))
    with open(trace, "w") as out:
        for hp, tp in jobs:
            if os.path.exists(tp):
                with open(tp) as f:
                    out.write(f.read())
                os.remove(tp)
            os.remove(hp)
    for e in errs:
        if e:
            return e
    return None


def unit_txn(ctx):
    d = core.shared_dir("txn", ctx.tier, ctx.seed)
    res, hist, trace = os.path.join(d, "txn.res"), os.path.join(d, "txn.hist"), os.path.join(d, "txn.impl")
    if not cached(res):
        n = budget(ctx, 2000, 40000)
        rc, out, _ = core.run("%s gen-txn %d %d %s" % (core.DRIVER, ctx.seed, n, hist))
        if rc != 0:
            return {"lines": [], "error": "gen-txn failed: " + out[-2000:]}
        err = run_restarting(ctx.bin("drv_txn.test"), hist, trace, "drv_txn")
        if err:
            return {"lines": [], "error": err}
        rc, out, _ = core.run("%s cmp-txn %s %s > %s.tmp && mv %s.tmp %s" % (core.DRIVER, hist, trace, res, res, res))
        if rc != 0:
            return {"lines": [], "error": "cmp-txn failed: " + out[-2000:]}
    return {"lines": open(res).read().splitlines(), "inputs": hist}


def unit_match(ctx):
    d = core.shared_dir("match", ctx.tier, ctx.seed)
    res, obs = os.path.join(d, "match.res"), os.path.join(d, "match.obs")
    if not cached(res):
        fl, nl = budget(ctx, (3, 4), (4, 5))
        rc, out, _ = core.run("%s -flevels %d -nlevels %d > %s" % (ctx.bin("drv_match"), fl, nl, obs))
        if rc != 0:
            return {"lines": [], "error": "drv_match failed: " + out[-2000:]}
        rc, out, _ = core.run("%s chk-match %s > %s.tmp && mv %s.tmp %s" % (core.DRIVER, obs, res, res, res))
        if rc != 0:
            return {"lines": [], "error": "chk-match failed: " + out[-2000:]}
    return {"lines": open(res).read().splitlines(), "inputs": obs}


def unit_cli(ctx):
    d = core.shared_dir("cli", ctx.tier, ctx.seed)
    res, obs = os.path.join(d, "cli.res"), os.path.join(d, "cli.obs")
    if not cached(res):
        n = budget(ctx, 8, 60)
        bindir = os.path.join(d, "bin")
        os.makedirs(bindir, exist_ok=True)
        for t in ("bisquitt", "bisquitt-pub", "bisquitt-sub"):
            core.run("cp %s %s" % (ctx.bin("cmd-" + t), os.path.join(bindir, t)))
        work = os.path.join(d, "work")
        os.makedirs(work, exist_ok=True)
        rc, out, _ = core.run("%s -bindir %s -seed %d -n %d -work %s -par 12 > %s 2> %s.err" % (
            ctx.bin("drv_cli"), bindir, ctx.seed, n, work, obs, obs), timeout=3000)
        core.run("rm -rf %s %s" % (work, bindir))
        if rc != 0:
            return {"lines": [], "error": "drv_cli failed: " + open(obs + ".err").read()[-2000:]}
        rc, out, _ = core.run("%s chk-cli %s > %s.tmp && mv %s.tmp %s" % (core.DRIVER, obs, res, res, res))
        if rc != 0:
            return {"lines": [], "error": "chk-cli failed: " + out[-2000:]}
    return {"lines": open(res).read().splitlines(), "inputs": obs}


def unit_client(ctx):
    d = core.shared_dir("client", ctx.tier, ctx.seed)
    res, hist, trace = os.path.join(d, "cl.res"), os.path.join(d, "cl.hist"), os.path.join(d, "cl.impl")
    if not cached(res):
        n = budget(ctx, 3000, 60000)
        rc, out, _ = core.run("%s gen-cl %d %d %s" % (core.DRIVER, ctx.seed, n, hist))
        if rc != 0:
            return {"lines": [], "error": "gen-cl failed: " + out[-2000:]}
        err = run_sharded(ctx.bin("drv_client.test"), hist, trace, "drv_client")
        if err:
            return {"lines": [], "error": err}
        rc, out, _ = core.run("%s cmp-cl %s %s > %s.tmp && mv %s.tmp %s" % (core.DRIVER, hist, trace, res, res, res))
        if rc != 0:
            return {"lines": [], "error": "cmp-cl failed: " + out[-2000:]}
    return {"lines": open(res).read().splitlines(), "inputs": hist}


def unit_client_ka(ctx):
    """C33: client histories with the keep-alive loop running (KeepAlive 1-3 s), compared with the
    keep-alive wrapper of the client model (Client/ClKeepalive.v); corpus witnesses first."""
    d = core.shared_dir("clientka", ctx.tier, ctx.seed)
    res, hist, trace = os.path.join(d, "ka.res"), os.path.join(d, "ka.hist"), os.path.join(d, "ka.impl")
    if not cached(res):
        n = budget(ctx, 1500, 30000)
        rc, out, _ = core.run("%s gen-cl-ka %d %d %s.gen" % (core.DRIVER, ctx.seed + 33, n, hist))
        if rc != 0:
            return {"lines": [], "error": "gen-cl-ka failed: " + out[-2000:]}
        corpus = os.path.join(core.VERIF, "corpus", "ka.hist")
        core.run("cat %s %s.gen > %s 2>/dev/null || cp %s.gen %s" % (corpus, hist, hist, hist, hist))
        err = run_sharded(ctx.bin("drv_client.test"), hist, trace, "drv_client")
        if err:
            return {"lines": [], "error": err}
        rc, out, _ = core.run("%s cmp-cl %s %s > %s.tmp && mv %s.tmp %s" % (core.DRIVER, hist, trace, res, res, res))
        if rc != 0:
            return {"lines": [], "error": "cmp-cl failed: " + out[-2000:]}
    return {"lines": open(res).read().splitlines(), "inputs": hist}


CL_RULE = ("model-guided random walks of the client library (ocaml/gen_cl.ml: API calls of every kind, answers of a scripted "
           "gateway to the pending transactions with losses, unsolicited/unknown/malformed datagrams, broker messages on "
           "subscribed topics incl. QoS 2 with repeated PUBLISH/PUBREL, time advances around timer deadlines), executed on the "
           "real client.Client under testing/synctest and compared output-by-output with the extracted model; non-trivial = "
           "the implementation produced an output for the event")
CL_ASSUME = ["KeepAlive = 0 in generated histories (the keep-alive loop is exercised separately)",
             "event-atomic driving; API returns and EXIT of one instant are compared as a set",
             "histories with two timers at one virtual instant are not generated"]

GW_RULE = ("model-guided random walks of one gateway session (ocaml/gen_gw.ml: 4 profiles - general, connect/auth "
           "exchange, sleep cycles, broker publishes with retries; client datagrams, broker packets, virtual-time "
           "advances around timer deadlines, every termination cause), executed on the real handler1 under "
           "testing/synctest with in-memory connections and compared output-by-output (bytes and virtual ms) with the "
           "extracted model; an event is non-trivial when the implementation produced at least one output for it, "
           "distinct by (configuration, event, outputs)")
GW_ASSUME = ["event-atomic driving: each datagram/packet/timer is handled to completion before the next (synctest.Wait)",
             "paho MQTT encoding/decoding, errgroup, context, sync primitives and Go timers behave as documented",
             "histories in which two timers (or a timer and an injected event) fall on the same virtual instant are not generated"]

PROPS = {
    "C05": {
        "theorems": ["C05_lookups_consistent"],
        "drivers": ["drv_topics"],
        "units": [Unit("drv_topics", unit_topics)],
        "rule": "generated predefined-topic maps (0-3 clients from {c1,c2,*,''} x 0-4 entries over 7 names x 6 IDs, "
                "deliberately overlapping) plus the repository's topics.yaml; every client x ID and client x name "
                "lookup; GetTopicID asked 6 times per query so several map iteration orders are seen; an "
                "observation is non-trivial when the lookup returns a value",
        "assumptions": ["Go map lookup semantics; yaml.v3 decoding (exercised through topics.yaml, not modelled)"],
    },
    "C20": {
        "theorems": ["C20_decoding_never_panics", "C20_no_panic_site"],
        "drivers": ["drv_codec"],
        "units": [Unit("drv_codec", unit_codec)],
        "mismatch_kinds": [r"decode class", r"driver error", r"bad D line"],
        "rule": "all datagrams of length 0-2 exhaustively (65 793); thorough: 3-byte datagrams with every 16th third byte; "
                "structural stream (type bytes x both header forms x body lengths 0-9 x flag bytes, AUTH method-length "
                "bytes 0-255 x body sizes, long-form headers announcing 0-300); encodings of constructor-built packets "
                "and their mutations (bit flips, truncation, extension); random strings up to 8192 B; the corpus of "
                "former crashers runs first; non-trivial = decodes successfully",
        "assumptions": ["ReadPacket is driven through a bytes.Reader (one Read = one datagram) under recover()"],
    },
    "C21": {
        "theorems": ["C21_round_trip", "C21_short_topic_bijection", "C21_checker_sound"],
        "drivers": ["drv_codec"],
        "units": [Unit("drv_codec", unit_codec)],
        "mismatch_kinds": [r"^pack", r"decode\(pack\)", r"ShortTopic", r"chk_short", r"driver error", r"pack failed"],
        "rule": "packets of all 28 types built through the exported constructors/setters with boundary and random field "
                "values (u8/u16 pools, lengths 0-9, 246-261, 1000, 7160-7168, oversize), Pack compared byte-for-byte with "
                "the model, ReadPacket of the result compared with the original; all 65 536 short topic IDs; "
                "non-trivial = the packet satisfies wf_pkt (legal ranges)",
        "assumptions": ["packets are built by the exported constructors and setters, as library users do"],
    },
    "C22": {
        "theorems": ["C22_decoded_reflects_datagram", "C22_checker_sound"],
        "drivers": ["drv_codec"],
        "units": [Unit("drv_codec", unit_codec)],
        "mismatch_kinds": [r"decode", r"repack", r"unparsable", r"driver error", r"bad D line"],
        "rule": "every datagram the decoder accepts among: all datagrams of length 0-2, the structural stream (type bytes x "
                "both header forms incl. long-form headers announcing 0-300, flag bytes 0-255), encodings of constructor-built "
                "packets and their mutations, random strings; the reference parser and the re-encoding rule are evaluated on "
                "the implementation's decoded fields and on its own Pack output; non-trivial = decodes successfully",
        "assumptions": ["ReadPacket is driven through a bytes.Reader under recover()"],
    },
    "C29": {
        "theorems": ["C29_any_schedule_is_sequential", "C29_sequence", "C29_distinct_in_cycle", "C29_store_is_two_maps"],
        "drivers": ["drv_util", "skeleton"],
        "units": [Unit("drv_util", unit_util),
                  Unit("lock-skeleton", unit_skeleton(r"^LOCK (util/id_sequence|transactions/transaction_store)"))],
        "rule": "IDSequence: all ranges of width <= 7 at several offsets for 3 cycles, random ranges near 65535 (thorough: the full "
                "ranges 1..65535 and 1..65534), concurrent callers (2/4/8 goroutines) whose results must be the sequential "
                "prefix as a multiset; TransactionStore: random sequential op sequences over both key spaces and concurrent "
                "histories checked for linearizability with porcupine (supporting evidence); lock skeleton of both types "
                "regenerated from source",
        "assumptions": ["atomicity of a method whose whole body runs under Lock()/defer Unlock() (Go mutex semantics)"],
    },
    "C18": {
        "theorems": ["C18_completes_at_most_once", "C18_done_is_final", "C18_done_iff_completion_ran_once"],
        "drivers": ["drv_txn.test", "skeleton"],
        "units": [Unit("drv_txn", unit_txn),
                  Unit("lock-skeleton", unit_skeleton(r"^(LOCK|GO) transactions/(transaction_base|retry_transaction|timed_transaction)"))],
        "rule": "random histories of Proceed/Success/Fail/callback-failure/cancel/time advances (retry counts 0-5, delays 1 ms - "
                "10 s, offsets around every deadline) on the real RetryTransaction and TimedTransaction under synctest, compared "
                "with the model event by event; the lock skeleton of transactions/*.go is regenerated from source (it carries "
                "the quantifier over schedules); non-trivial = the event produced an output",
        "assumptions": ["interleavings are sequences of mutex-protected regions (Go mutex semantics); the Go memory model and the "
                        "race detector are outside the model; client/sleep_transaction.go timers are not covered (known finding)"],
    },
    "C19": {
        "theorems": ["C19_retry_budget_exact", "C19_progress_resets", "C19_quiet_before_delay", "C19_time_additive", "C19_timed_exact"],
        "drivers": ["drv_txn.test", "drv_client.test"],
        "units": [Unit("drv_txn", unit_txn), Unit("drv_client", unit_client)],
        "mismatch_kinds": [r"txn", r"callback", r"schedule", r"RET", r"TIME", r"SN:(Pubrel|Publish|Register|Subscribe|Unsubscribe|Pingreq)", r"MISSING-", r"PANIC", r"."],
        "rule": "as C18: virtual timestamps of retry callbacks and completion compared exactly with the model; and the client "
                "library's use of the transactions (what counts as progress): " + CL_RULE + "; a call overdue beyond its budget "
                "(monitor clause (28,1)) is reported as a C19 failure too",
        "assumptions": ["Go timers fire at their deadline on the synctest fake clock"] + CL_ASSUME,
    },
    "C27": {
        "theorems": ["C27_match_is_mqtt_matching", "C27_only_matching_callbacks", "C27_unsubscribed_not_invoked", "C27_step_only_matching_callbacks", "C27_step_delivered_message_invokes_a_callback"],
        "drivers": ["drv_match", "drv_client.test"],
        "units": [Unit("drv_match", unit_match), Unit("drv_client", unit_client)],
        "mismatch_kinds": [r"match", r"^CB", r"EXTRA CB", r"MISSING CB", r"PANIC", r"MISSING-"],
        "rule": "client.match on ALL filters of <= 3 levels x names of <= 4 levels over {a,b,'',+,#} (thorough: 4 x 5 levels), and "
                "client histories with subscriptions, unsubscriptions and broker messages on matching and non-matching topics",
        "assumptions": CL_ASSUME,
    },
    "C30": {
        "theorems": ["C30_same_in_every_tool", "C30_file_overridden_by_options", "C30_later_options_win", "C30_option_without_client"],
        "drivers": ["drv_cli", "skeleton", "cmd-bisquitt", "cmd-bisquitt-pub", "cmd-bisquitt-sub", "drv_topics"],
        "units": [Unit("drv_cli", unit_cli), Unit("call-site-skeleton", unit_skeleton(r"^CLI ")), Unit("drv_topics", unit_topics)],
        "mismatch_kinds": [r"gateway topic", r"predefined id", r"short topic", r"plain topic", r"configuration", r"driver",
                           r"SKELETON", r"GetTopic", r"tool mapping"],
        "rule": "the three real binaries run over loopback against a fake gateway / fake broker with generated YAML files and "
                "--predefined-topic option lists (overlapping, later overriding earlier, 2- and 3-field forms, malformed ones); "
                "observed: the topic ID on the wire (pub/sub) and the MQTT topic name at the broker (gateway), exit status",
        "assumptions": ["yaml.v3 and urfave/cli parsing are exercised by running the binaries, not modelled"],
    },
    "C31": {
        "theorems": ["C31_gateway_refuses_plaintext_auth", "C31_client_tools_refuse_plaintext_user"],
        "drivers": ["drv_cli", "skeleton", "cmd-bisquitt", "cmd-bisquitt-pub", "cmd-bisquitt-sub", "drv_client.test"],
        "units": [Unit("drv_cli", unit_cli), Unit("guard-skeleton", unit_skeleton(r"^GUARD ")), Unit("drv_client", unit_client)],
        "mismatch_kinds": [r"start-up", r"empty user", r"driver", r"SKELETON", r"SN:(Auth|Connect)", r"PANIC", r"MISSING-"],
        "rule": "all 16 combinations of auth|user / password / dtls(+self-signed) / insecure, each by flag and by environment "
                "variable, for the three binaries (starts = UDP port bound or first datagram sent); client histories with and "
                "without a configured user (AUTH must follow every CONNECT, retransmitted ones included)",
        "assumptions": CL_ASSUME + ["urfave/cli flag/env handling is exercised, not modelled"],
    },
    "C32": {
        "theorems": ["C32_routing_consistent"],
        "drivers": ["drv_topics", "drv_codec", "drv_cli", "cmd-bisquitt", "cmd-bisquitt-pub", "cmd-bisquitt-sub", "drv_gw.test"],
        "units": [Unit("drv_topics", unit_topics), Unit("drv_codec", unit_codec), Unit("drv_cli", unit_cli), Unit("drv_gw", unit_gw)],
        "mismatch_kinds": [r"GetTopic", r"ShortTopic", r"chk_short", r"gateway topic", r"predefined id", r"short topic",
                           r"MQ:(PUBLISH|SUBSCRIBE|UNSUBSCRIBE)", r"SN:Publish"],
        "rule": "predefined lookups on overlapping configurations, all 65 536 short topic IDs, the real bisquitt-pub/-sub "
                "against the real gateway's resolution of the same configuration (drv_cli cross-check), and the gateway session "
                "histories (client packets and broker messages with predefined and short topic IDs at any point of a session: the "
                "gateway must resolve them under the client ID of the CONNECT throughout)",
        "assumptions": ["client and gateway are given the same configuration and client ID"],
    },
    "C14": {
        "theorems": ["C14_step", "C14_histories", "C14_checker_sound"],
        "drivers": ["drv_gw.test"],
        "units": [Unit("drv_gw", unit_gw)],
        "mismatch_kinds": [r"MQ:DISCONNECT", r"^(CLOSE|SNCLOSE|END|TIME)", r"PANIC", r"MISSING-", r"EXTRA (CLOSE|END)",
                           r"MISSING (CLOSE|END)"],
        "rule": GW_RULE,
        "assumptions": GW_ASSUME,
    },
}


GW_KINDS_ALL = [r"."]   # any divergence of the session trace breaks the tie of a translation property


def gw_prop(theorems, kinds, extra_assumptions=()):
    return {
        "theorems": theorems,
        "drivers": ["drv_gw.test"],
        "units": [Unit("drv_gw", unit_gw)],
        "mismatch_kinds": kinds,
        "rule": GW_RULE,
        "assumptions": GW_ASSUME + list(extra_assumptions),
    }


PROPS.update({
    "C01": gw_prop(["C01_forward_exact", "C01_never_forward_unknown", "C01_checker_sound", "C01_all_histories"],
                   [r"MQ:PUBLISH", r"SN:(Regack|Suback|Register|Connack)", r"^(END|CLOSE)", r"PANIC", r"MISSING-"]),
    "C02": gw_prop(["C02_checker_sound_partial", "C02_all_histories", "C02_refuted"],
                   [r"SN:(Publish|Register|Regack|Suback)", r"^(END|CLOSE)", r"PANIC", r"MISSING-"]),
    "C03": gw_prop(["C03_checker_sound", "C03_all_histories"],
                   [r"MQ:(SUBSCRIBE|UNSUBSCRIBE|PUBREL|PINGREQ|DISCONNECT)", r"SN:(Pubrec|Pubcomp|Unsuback|Suback|Pingresp)",
                    r"PANIC", r"MISSING-"]),
    "C04": gw_prop(["C04_checker_sound", "C04_side_condition_invariant", "C04_all_histories", "C04_refuted"],
                   [r"SN:(Regack|Suback|Register)", r"PANIC", r"MISSING-"]),
    "C07": gw_prop(["C07_checker_sound", "C07_all_histories", "C07_connected_implies_accepted", "C07_trace_all_histories"],
                   [r"SN:Connack", r"MQ:", r"^(END|CLOSE)", r"PANIC", r"MISSING-"]),
    "C08": gw_prop(["C08_checker_sound", "C08_all_histories", "C08_excluded_is_rejected"],
                   [r"MQ:CONNECT", r"SN:Connack", r"PANIC", r"MISSING-"]),
    "C09": gw_prop(["C09_checker_sound", "C09_all_histories"],
                   [r"MQ:CONNECT", r"SN:(Connack|WillTopicReq|WillMsgReq)", r"PANIC", r"MISSING-"]),
    "C11": gw_prop(["C11_checker_sound", "C11_all_histories", "C11_asleep_again", "C11_refuted"],
                   [r"SN:", r"TIME", r"PANIC", r"MISSING-"]),
    "C24": gw_prop(["C24_checker_sound", "C24_all_histories"],
                   [r"MQ", r"PANIC", r"MISSING-"],
                   ["the configuration does not set a broker password without a user name and has no predefined topic "
                    "with an empty name; the broker's PUBLISHes carry a non-empty topic and a non-zero packet identifier "
                    "for QoS > 0 (hypotheses wf_cfg', wf_event' of the theorem)"]),
})

PROPS.update({
    "C23": {
        "theorems": ["C23_gateway_checker_sound", "C23_gateway_all_histories", "C23_client_checker_sound", "C23_client_all_histories"],
        "drivers": ["drv_gw.test", "drv_client.test"],
        "units": [Unit("drv_gw", unit_gw), Unit("drv_client", unit_client)],
        "mismatch_kinds": [r"SN", r"undecodable", r"PANIC", r"MISSING-"],
        "rule": GW_RULE + "; " + CL_RULE,
        "assumptions": GW_ASSUME + CL_ASSUME + ["configuration sanity and broker conformance as in C24 (wf_cfg', wf_event'); client "
                                                "configuration with a non-empty client ID and credentials that fit a datagram (wf_cl_cfg)"],
    },
    "C28": {
        "theorems": ["C28_all_histories"],
        "drivers": ["drv_client.test"],
        "units": [Unit("drv_client", unit_client)],
        "mismatch_kinds": [r"RET", r"EXIT", r"TIME", r"PANIC", r"LEAK", r"MISSING", r"EXTRA"],
        "rule": CL_RULE + "; the monitor cmon (every call returns by its bound, the client is gone after Close / the gateway's "
                          "DISCONNECT by its deadline) runs on the implementation's return and exit times, and the driver reports "
                          "goroutines that outlive the client (LEAK)",
        "assumptions": CL_ASSUME + ["the model's timer loop does not run out of fuel within one advance (executable adv_ok, counted per "
                                    "run as side_condition_failed_steps)"],
    },
    "C17": {
        "theorems": ["C17_checker_sound", "C17_all_histories"],
        "drivers": ["drv_client.test"],
        "units": [Unit("drv_client", unit_client)],
        "mismatch_kinds": [r"SN:(Publish|Subscribe|Pubcomp|Pubrel|Register|Unsubscribe)", r"RET", r"TIME", r"PANIC", r"MISSING-"],
        "rule": CL_RULE,
        "assumptions": CL_ASSUME,
    },
})


def unit_gw_multi(ctx):
    """C15: groups of three sessions created from ONE shared gateway configuration run concurrently
    in one bubble; every session's trace is compared with the single-session model."""
    d = core.shared_dir("gwmulti", ctx.tier, ctx.seed)
    res, hist, trace = os.path.join(d, "gwm.res"), os.path.join(d, "gwm.hist"), os.path.join(d, "gwm.impl")
    if not cached(res):
        groups = budget(ctx, 700, 14000)
        rc, out, _ = core.run("%s gen-gw-multi %d %d 3 %s" % (core.DRIVER, ctx.seed + 15, groups, hist))
        if rc != 0:
            return {"lines": [], "error": "gen-gw-multi failed: " + out[-2000:]}
        err = run_sharded_multi(ctx.bin("drv_gw.test"), hist, trace, 3)
        if err:
            return {"lines": [], "error": err}
        rc, out, _ = core.run("%s cmp-gw %s %s > %s.tmp && mv %s.tmp %s" % (core.DRIVER, hist, trace, res, res, res))
        if rc != 0:
            return {"lines": [], "error": "cmp-gw failed: " + out[-2000:]}
    lines = open(res).read().splitlines()
    # a session that diverges from the single-session model while running next to others, but agrees with
    # it when the same history runs alone on the same code, was influenced by the other sessions: that
    # group of histories is a concrete failing input of C15
    import re
    div = {}
    for l in lines:
        m = re.match(r"MISMATCH .* h=(\d+) e=(\d+) :: (.*)", l)
        if m:
            div.setdefault(int(m.group(1)), l)
    if div:
        solo_h, solo_t, solo_r = hist + ".solo", trace + ".solo", res + ".solo"
        with open(hist) as f, open(solo_h, "w") as g:
            keep = False
            for line in f:
                if line.startswith("H "):
                    keep = int(line.split()[1]) in div
                if keep:
                    g.write(line)
        err = run_restarting(ctx.bin("drv_gw.test"), solo_h, solo_t, "drv_gw")
        if not err:
            core.run("%s cmp-gw %s %s > %s" % (core.DRIVER, solo_h, solo_t, solo_r))
            solo_div = set()
            for l in open(solo_r).read().splitlines():
                m = re.match(r"MISMATCH .* h=(\d+) ", l)
                if m:
                    solo_div.add(int(m.group(1)))
            for h, l in sorted(div.items()):
                if h not in solo_div:
                    lines.append("FAIL C15 differs-from-solo-run h=%d (group of histories %d..%d) :: alone: agrees with the model; "
                                 "concurrently: %s" % (h, h - h % 3, h - h % 3 + 2, l[:300]))
    # any failure of a single-session property observed in a concurrent session is a C15 failure too,
    # unless the single-session model shows the same failure in the same step (model=fails: a recorded
    # finding of that property, not interference)
    lines = [l for l in lines if not l.startswith("FAIL ") or l.startswith("FAIL C15 ")] + \
            ["FAIL C15 in-concurrent-session " + l[5:] for l in lines if l.startswith("FAIL ") and
             not l.startswith("FAIL C15 ") and " model=fails" not in l]
    return {"lines": lines, "inputs": hist}


def run_sharded_multi(binary, hist, trace, k, shards=14):
    """Like run_sharded for groups of k consecutive histories (drv_gw -multi k).  A crash inside a
    group is recorded for every history of the group (the driver announces a group with a G line)."""
    from concurrent.futures import ThreadPoolExecutor
    blocks, cur = [], []
    with open(hist) as f:
        for line in f:
            cur.append(line)
            if line.strip() == "END":
                blocks.append(cur)
                cur = []
    groups = [blocks[i:i + k] for i in range(0, len(blocks) - len(blocks) % k, k)]
    parts = [[] for _ in range(shards)]
    for g, grp in enumerate(groups):
        parts[g % shards].append(grp)

    def run_part(j):
        hp, tp = "%s.s%d" % (hist, j), "%s.s%d" % (trace, j)
        with open(hp, "w") as f:
            for grp in parts[j]:
                for b in grp:
                    f.writelines(b)
        start = 0
        open(tp, "w").close()
        for _ in range(100):
            rc, out, _ = core.run("%s -hist %s -out %s -start %d -multi %d" % (binary, hp, tp, start, k), timeout=3000)
            if rc == 0:
                return None
            lastg = None
            with open(tp) as f:
                for line in f:
                    if line.startswith("G "):
                        lastg = [int(x) for x in line.split()[1:3]]
            if lastg is None or lastg[0] < start:
                return "drv_gw -multi failed before running any group: " + out[-2000:]
            msg = "unknown"
            for ln in out.splitlines():
                if ln.startswith("panic:") or "fatal error" in ln:
                    msg = ln.strip().replace(" ", "_")
                    break
            with open(tp, "a") as f:
                for idx in range(lastg[0], lastg[1] + 1):
                    f.write("H %d\nX PANIC process-crashed:%s\nEND\n" % (idx, msg))
            start = lastg[1] + 1
        return "drv_gw -multi crashed too many times"

    with ThreadPoolExecutor(max_workers=shards) as ex:
        errs = list(ex.map(run_part, range(shards)))
    with open(trace, "w") as out:
        for j in range(shards):
            hp, tp = "%s.s%d" % (hist, j), "%s.s%d" % (trace, j)
            if os.path.exists(tp):
                with open(tp) as f:
                    out.write(f.read())
                os.remove(tp)
            if os.path.exists(hp):
                os.remove(hp)
    for e in errs:
        if e:
            return e
    return None


PROPS["C15"] = {
    "theorems": ["C15_non_interference"],
    "drivers": ["drv_gw.test", "drv_cli", "cmd-bisquitt", "cmd-bisquitt-pub", "cmd-bisquitt-sub"],
    "units": [Unit("drv_gw_multi", unit_gw_multi), Unit("drv_cli", unit_cli)],
    "mismatch_kinds": [r"^(?!gateway topic|predefined id|short topic|plain topic|configuration|empty user|tool)"],
    "rule": "the real gateway binary (its accept loop: one session per peer address) with two peers on loopback UDP - the "
            "second peer's session must survive the end of the first one's (drv_cli, CLI15); and groups of three model-guided session histories (profiles as in the single-session runs) sharing ONE configuration "
            "and predefined-topics map are run as three concurrent sessions created from one shared gateway handler "
            "configuration (gateway.NewVerifShared, as ListenAndServe does per peer address) in one synctest bubble on a common "
            "clock, events interleaved by virtual time; each session's trace must equal the single-session model run of its own "
            "events, byte for byte and ms for ms; non-trivial = the implementation produced an output for the event",
    "assumptions": GW_ASSUME + ["sessions are created through the add-only verif hook that mirrors ListenAndServe's per-connection "
                                "closure; the UDP demultiplexing by peer address (pion/udp) is not exercised"],
}


def unit_c25_runs(ctx):
    """C25 reads the crash observations (X PANIC lines -> FAIL C25) of the stateful runs."""
    lines = []
    inputs = None
    for u in (unit_gw, unit_client, unit_gw_multi, unit_e2e):
        r = u(ctx)
        if r.get("error"):
            return r
        for l in r["lines"]:
            if l.startswith("FAIL C15 in-concurrent-session C25"):
                lines.append("FAIL C25 " + l[len("FAIL C15 in-concurrent-session C25 "):])
            elif l.startswith("MISMATCH") and "PANIC" not in l and "MISSING" not in l:
                continue
            elif not l.startswith("FAIL") or l.startswith("FAIL C25 "):
                lines.append(l)
        inputs = inputs or r.get("inputs")
    return {"lines": lines, "inputs": inputs}


PROPS["C25"] = {
    "theorems": ["C25_gateway_never_crashes", "C25_client_never_crashes"],
    "drivers": ["drv_gw.test", "drv_client.test", "drv_e2e.test", "skeleton", "drv_codec", "drv_match"],
    "units": [Unit("stateful-runs", unit_c25_runs), Unit("panic-site-census", unit_skeleton(r"^PANIC ")),
              Unit("drv_codec", unit_codec), Unit("drv_match", unit_match)],
    "mismatch_kinds": [r"PANIC", r"MISSING-", r"SKELETON", r"decode class"],
    "rule": GW_RULE + "; " + CL_RULE + "; three concurrent sessions per gateway (C15 runs); every history runs in a process "
            "whose crash is recorded with the history that caused it; malformed and adversarial packets (random type bytes, "
            "boundary lengths, packets illegal in the state, stale and duplicate acknowledgements) are part of every profile; the "
            "census of panic-capable expressions of gateway/, client/, transactions/, util/ is regenerated from source; the client's "
            "topic matcher is run on ALL filter x name pairs over a small alphabet under recover()",
    "assumptions": GW_ASSUME + CL_ASSUME + ["the justifications of coq/panic_sites.md for the unchecked assertions / index "
                                            "expressions outside the codec (constructor type invariants, paho NewControlPacket)",
                                            "nil-pointer dereferences are not recognisable syntactically and are covered only by the runs"],
}

PROPS["C06"] = {
    "theorems": ["C06_gateway_refuted", "C06_gateway_only_interference_fails", "C06_register_step_only_interference_fails",
                 "C06_register_step_examples", "C06_client_refuted", "C06_client_only_interference_fails"],
    "drivers": ["drv_gw.test", "drv_client.test"],
    "units": [Unit("drv_gw", unit_gw), Unit("drv_client", unit_client)],
    "mismatch_kinds": [r"SN:(Puback|Suback|Pubrec|Pubcomp|Pubrel|Publish|Register)", r"MQ:(PUBACK|PUBREC|PUBCOMP)", r"PANIC", r"MISSING-"],
    "rule": GW_RULE + " (broker message IDs are drawn from the live client exchanges a quarter of the time; corpus witnesses run first); " + CL_RULE,
    "assumptions": GW_ASSUME + CL_ASSUME,
}

TIMED_ASSUME = GW_ASSUME + ["the model's clock is not stuck: no advance exhausts the fuel of run_timers (executable condition clock_ok; "
                            "generated advances are far below the cap)"]
PROPS.update({
    "C10": gw_prop(["C10_all_histories"], [r"^(END|CLOSE|SNCLOSE|TIME)", r"EXTRA (END|CLOSE)", r"MISSING (END|CLOSE)", r"SN:Disconnect", r"PANIC", r"MISSING-"], TIMED_ASSUME[3:]),
    "C13": gw_prop(["C13_all_histories"], [r"^(END|CLOSE|SNCLOSE|TIME|LEAK)", r"EXTRA (END|CLOSE)", r"MISSING (END|CLOSE)", r"SN:Disconnect", r"PANIC", r"MISSING-"], TIMED_ASSUME[3:]),
    "C34": gw_prop(["C34_refuted", "C34_partial"], [r"MQ:PINGREQ", r"MQ:(PUBACK|PUBREC|PUBCOMP)", r"TIME", r"^(END|CLOSE)", r"PANIC", r"MISSING-"],
                   TIMED_ASSUME[3:] + ["the broker of the property's hypothesis (drops a connection without CONNECT or silent for 1.5 x keep-alive) is "
                                       "represented by broker-EOF events of the vanish profile; the monitor checks that nothing keeps the connection alive"]),
    "C12": gw_prop(["C12_refuted_local_traffic", "C12_refuted_sleep_not_longer_than_keepalive", "C12_refuted_first_ping_late",
                    "C12_partial_pingreq", "C12_partial_pinger_fires"],
                   [r"MQ:", r"TIME", r"PANIC", r"MISSING-"], TIMED_ASSUME[3:]),
})


def unit_e2e(ctx):
    """Real Client + real gateway session + scripted conforming broker over a lossy in-memory link
    (drv_e2e) against the composed model (System/Compose.v); C16 / C26 monitor on the implementation."""
    d = core.shared_dir("e2e", ctx.tier, ctx.seed)
    res, hist, trace = os.path.join(d, "e2e.res"), os.path.join(d, "e2e.hist"), os.path.join(d, "e2e.impl")
    if not cached(res):
        n = budget(ctx, 1800, 36000)
        rc, out, _ = core.run("%s gen-e2e %d %d %s" % (core.DRIVER, ctx.seed + 26, n, hist))
        if rc != 0:
            return {"lines": [], "error": "gen-e2e failed: " + out[-2000:]}
        err = run_sharded(ctx.bin("drv_e2e.test"), hist, trace, "drv_e2e")
        if err:
            return {"lines": [], "error": err}
        rc, out, _ = core.run("%s cmp-e2e %s %s > %s.tmp && mv %s.tmp %s" % (core.DRIVER, hist, trace, res, res, res))
        if rc != 0:
            return {"lines": [], "error": "cmp-e2e failed: " + out[-2000:]}
    return {"lines": open(res).read().splitlines(), "inputs": hist}


E2E_RULE = ("model-guided API programs (ocaml/gen_e2e.ml: connect, register, publish at every QoS on registered / short / "
            "predefined topics, subscribe incl. wildcards, unsubscribe, ping, sleep cycles, disconnect; broker-originated "
            "publishes QoS 0-2 on subscribed topics incl. bursts and new topics under wildcards; 6 profiles: lossless, "
            "sleep+bursts, faults within the retry budget, authentication, heavy loss, mixed) run on the REAL client.Client and "
            "the REAL gateway session in one synctest bubble with a scripted conforming broker and a link that drops / "
            "duplicates the k-th datagram of each direction as the history's fault list says; compared channel by channel "
            "(link directions, broker in/out, API returns, handler invocations; virtual ms) with the composed model")
E2E_ASSUME = ["event-atomic driving (synctest.Wait after every API call start / broker publish / time advance)",
              "client KeepAlive = 60000 s: the keep-alive loop of the client (not in the client model) never ticks within a history",
              "termination of the gateway session is compared as a fact only (end times are C13's)",
              "histories with two deadlines of the system at one virtual instant are not generated"]
KA_RULE = ("model-guided random walks of the client library WITH the keep-alive loop running (ocaml/gen_cl.ml run_ka: KeepAlive 1-3 s, "
           "frequent sleep cycles, API calls of every kind, a scripted gateway that answers the loop's pings most of the time, late "
           "or not at all; advances around the ticks of the ticker and the retry deadlines), executed on the real client.Client under "
           "testing/synctest and compared output-by-output with the extracted keep-alive wrapper model (ka_step); two corpus witnesses "
           "run first; the monitor kmon runs on the implementation's outputs and on the model's own")
PROPS["C33"] = {
    "theorems": ["C33_loop_pings_only_when_active", "C33_pingreq_at_least_every_period", "C33_refuted_retransmission_while_asleep",
                 "C33_refuted_ping_call_fails"],
    "drivers": ["drv_client.test"],
    "units": [Unit("drv_client_ka", unit_client_ka)],
    "mismatch_kinds": [r"."],
    "rule": KA_RULE,
    "assumptions": ["event-atomic driving; API returns and EXIT of one instant are compared as a set",
                    "histories with two deadlines (timers, ticker) at one virtual instant are not generated",
                    "outside the sequential model (counted as outside_keepalive_model, nothing is compared or judged after that "
                    "point): a state change while the loop is inside a ping AND the capacity-1 channel already holds an unread change "
                    "(the sender blocks in notifyStateChange); a pending tick and a pending state change both ready when a ping returns "
                    "(Go's select takes either)",
                    "timer channel semantics of Go >= 1.23 (the harness module): Stop/Reset discard a pending tick"],
}
PROPS["C26"] = {
    "theorems": ["C26_connect_then_simple_calls", "C26_and_final_disconnect", "C26_subscriptions_and_delivery",
                 "C26_subscriptions_and_final_disconnect", "C26_programs_with_register_qos2_unsubscribe",
                 "C26_message_on_a_new_topic_is_registered_and_delivered",
                 "C26_sleep_cycle_delivers_every_message_once", "C26_repeated_sleep_cycles", "C26_sleep_cycle_with_a_qos1_message", "C26_sleep_cycle_with_qos1_messages", "C26_sleep_cycle_with_qos1_messages_delivery",
                 "C26_sleep_cycle_with_a_qos2_message_holds_the_PUBREL",
                 "C26_qos2_message_is_delivered_once_over_two_sleep_cycles", "C26_ping_in_the_awake_state",
                 "C26_sleep_cycle_then_ping", "C26_refuted"],
    "drivers": ["drv_e2e.test"],
    "units": [Unit("drv_e2e", unit_e2e)],
    "mismatch_kinds": [r"."],
    "rule": E2E_RULE + "; BBURST events: several broker PUBLISHes back to back with the client's datagrams held back by the link "
                       "until the gateway has handled all of them (a burst in flight)",
    "assumptions": E2E_ASSUME,
}
PROPS["C16"] = {
    "theorems": ["C16_retransmission_is_the_same_packet_with_DUP", "C16_gateway_stops_after_RetryCount",
                 "C16_gateway_relays_every_step", "C16_qos1_delivered_within_the_retry_budget", "C16_qos2_completes_exactly_once_with_one_loss",
                 "C16_register_step_survives_a_lost_regack", "C16_client_answers_every_PUBREL",
                 "C16_sleep_survives_a_lost_disconnect_reply", "C16_qos2_survives_any_loss_pattern",
                 "C16_qos2_loss_pattern_delivery", "C16_new_topic_qos1_survives_any_loss_pattern",
                 "C16_new_topic_loss_pattern_delivery", "C16_new_topic_qos2_survives_register_losses",
                 "C16_new_topic_qos2_delivery"],
    "drivers": ["drv_e2e.test", "drv_gw.test", "drv_client.test"],
    "units": [Unit("drv_e2e", unit_e2e), Unit("drv_gw", unit_gw), Unit("drv_client", unit_client)],
    "mismatch_kinds": [r"^(C2G|G2C|BR|BS|CB|RET)", r"EXTRA (C2G|G2C|BR|BS)", r"MISSING (C2G|G2C|BR|BS)",
                       r"SN:(Publish|Register|Pubrel|Pubrec|Pubcomp|Puback)", r"MQ:(PUBACK|PUBREC|PUBCOMP)", r"PANIC", r"MISSING-"],
    "rule": E2E_RULE + "; " + GW_RULE,
    "assumptions": E2E_ASSUME + GW_ASSUME,
}

PROPS["C25"]["rule"] += ("; end-to-end runs of the real client with the real gateway (" + E2E_RULE + "), one history in four with every "
                         "API call over the synchronous link: the schedule in which the peer's reply is handled before the caller continues")


# ------------------------------------------------------------------ directed search after a broken tie

def escalate_with(kind, binary_name, cmp_cmd):
    """Returns an escalation function for a history-driven unit: extend every diverging prefix with
    late / repeated acknowledgements around the retry deadlines (driver ext-*), run the extended
    histories on the implementation and through the same comparator + checkers, and return the
    FAIL lines found."""
    def fn(ctx, unit_result):
        hist = unit_result.get("inputs")
        d = os.path.dirname(hist)
        res = [f for f in sorted(os.listdir(d)) if f.endswith(".res") and f != "ext.res"]
        if not res:
            return []
        res = os.path.join(d, res[0])
        xh, xt, xr = os.path.join(d, "ext.hist"), os.path.join(d, "ext.impl"), os.path.join(d, "ext.res")
        if cached(xr):      # another property's check already ran the search on these results
            return [l for l in open(xr).read().splitlines() if l.startswith("FAIL ")]
        rc, out, _ = core.run("%s ext-%s %s %s %s" % (core.DRIVER, kind, hist, res, xh))
        if rc != 0 or not cached(xh):
            return []
        err = run_sharded(ctx.bin(binary_name), xh, xt, binary_name)
        if err:
            return []
        rc, out, _ = core.run("%s %s %s %s > %s.tmp && mv %s.tmp %s" % (core.DRIVER, cmp_cmd, xh, xt, xr, xr, xr))
        if rc != 0:
            return []
        return [l for l in open(xr).read().splitlines() if l.startswith("FAIL ")]
    return fn


ESCALATE = {"drv_client": escalate_with("cl", "drv_client.test", "cmp-cl"),
            "drv_gw": escalate_with("gw", "drv_gw.test", "cmp-gw")}


def unit_conc(ctx):
    """C18 on real concurrent schedules (real time, real goroutines): see harness/drv_conc."""
    n = budget(ctx, 300, 5000)
    rc, out, _ = core.run("%s -n %d" % (ctx.bin("drv_conc"), n), timeout=1200)
    if rc != 0:
        return {"lines": [], "error": "drv_conc failed: " + out[-2000:]}
    lines = []
    rounds = 0
    for l in out.splitlines():
        if not l.startswith("CONC "):
            continue
        kv = dict(x.split("=") for x in l.split()[2:])
        rounds += int(kv["rounds"])
        for k, clause in (("callback_after_done", "callback-after-done"), ("finally_not_once", "finally-not-once"),
                          ("err_changed", "err-changed-after-done")):
            if int(kv[k]) != 0:
                lines.append("FAIL C18 %s-concurrent :: %s" % (clause, l))
    lines.append("STAT evaluations=%d nontrivial=%d" % (rounds, rounds))
    lines.append("SUMMARY conc rounds=%d failures=%d" % (rounds, len(lines) - 1))
    lines.append("SAMPLE " + out.splitlines()[0] if out.splitlines() else "SAMPLE -")
    return {"lines": lines, "inputs": "harness/drv_conc (real-time stress; schedules are not replayable, the counts are)"}


PROPS["C18"]["drivers"].append("drv_conc")
PROPS["C18"]["units"].append(Unit("drv_conc", unit_conc))
PROPS["C18"]["rule"] += ("; real-time stress on real goroutines (zero retry delay, slow completion callback, 300 rounds per kind; "
                         "thorough 5000): a retry callback observing Done closed, a completion callback not run exactly once or an "
                         "Err changing after Done is a failure on the schedule that happened")
