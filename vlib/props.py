"""props.py — per-property registry: theorems, drivers, correspondence units."""
import os

from . import core
from .runner import Unit


def sh_lines(cmd, cwd=None, timeout=3000, env=None):
    rc, out, _ = core.run(cmd, cwd=cwd, timeout=timeout, env=env)
    return rc, out.splitlines()


def budget(ctx, quick, thorough):
    return thorough if ctx.tier in ("thorough", "escalate") else quick


# ------------------------------------------------------------------ topics (C05, C30, C32)

def unit_topics(ctx):
    obs = os.path.join(ctx.work, "topics.obs")
    n = budget(ctx, 300, 6000)
    rc, out, _ = core.run("%s -seed %d -n %d -repo %s > %s" % (ctx.bin("drv_topics"), ctx.seed, n, core.REPO, obs))
    if rc != 0:
        return {"lines": [], "error": "drv_topics failed: " + out}
    rc, lines = sh_lines("%s chk-topics %s" % (core.DRIVER, obs))
    if rc != 0:
        return {"lines": [], "error": "chk-topics failed: " + "\n".join(lines[-20:])}
    return {"lines": lines, "inputs": obs}


PROPS = {
    "C05": {
        "theorems": ["C05_lookups_consistent"],
        "drivers": ["drv_topics"],
        "units": [Unit("drv_topics", unit_topics)],
        "rule": "generated predefined-topic maps (0-3 clients from {c1,c2,*,''} x 0-4 entries over 7 names x 6 IDs, "
                "deliberately overlapping) plus the repository's topics.yaml; every client x ID and client x name "
                "lookup; GetTopicID asked 6 times per query so several map iteration orders are seen; an "
                "observation is non-trivial when the lookup returns a value",
        "assumptions": ["Go map lookup semantics; yaml.v3 decoding (exercised through topics.yaml, not modelled)"],
    },
}
