"""core.py — build orchestration, caching, evidence and verdicts for ./check.

Everything a registered command needs lives under /verif (cache: /verif/.cache).
"""
import fcntl
import hashlib
import json
import os
import re
import subprocess
import sys
import time

VERIF = os.path.dirname(os.path.dirname(os.path.abspath(__file__)))
REPO = os.environ.get("VERIF_REPO", "/repo")
CACHE = os.path.join(VERIF, ".cache")
COQ = os.path.join(VERIF, "coq")
OCAML = os.path.join(VERIF, "ocaml")
HARNESS = os.path.join(VERIF, "harness")
DRIVER = os.path.join(OCAML, "_build", "default", "driver.exe")

GOENV = dict(os.environ, GOFLAGS="-mod=mod", GOPROXY="off", GOSUMDB="off",
             GOTOOLCHAIN="local", CGO_ENABLED="0")
GO = "go1.26"

FORBIDDEN = re.compile(
    r"\b(Admitted|admit|Axiom|Axioms|Parameter|Parameters|Conjecture|Conjectures|"
    r"Admit Obligations|bypass_check|Unset Guard Checking|Unset Positivity Checking|"
    r"Unset Universe Checking|type-in-type|impredicative-set|native_compute)\b")

TRUSTED_BASE = [
    "Coq 8.16.1 kernel (coqc); vm_compute is used, native_compute is not",
    "axioms: none declared by the development; Print Assumptions of each property theorem is recorded in this file",
    "extraction: ExtrOcamlBasic only (bool/option/unit/list/prod/sumbool/sumor/comparison), no Extract Constant of our own; N/positive/nat stay inductive; OCaml 4.13.1 + dune",
    "hand-written OCaml glue (ocaml/conv.ml, chk_*.ml, gen_*.ml) and the Go correspondence harness (harness/*), go1.26.8 testing/synctest fake clock",
    "the model is hand-written; it is tied to /repo by differential execution on generated inputs (testing, not proof) and by the extracted checkers applied to the implementation's own traces",
]


def log(msg):
    print(msg, flush=True)


class Lock:
    def __init__(self, name):
        os.makedirs(CACHE, exist_ok=True)
        self.path = os.path.join(CACHE, name + ".lock")

    def __enter__(self):
        self.f = open(self.path, "w")
        fcntl.flock(self.f, fcntl.LOCK_EX)
        return self

    def __exit__(self, *a):
        fcntl.flock(self.f, fcntl.LOCK_UN)
        self.f.close()


def run(cmd, cwd=None, env=None, timeout=1800, inp=None, check=False):
    t0 = time.time()
    p = subprocess.run(cmd, cwd=cwd, env=env, input=inp, stdout=subprocess.PIPE,
                       stderr=subprocess.STDOUT, timeout=timeout, text=True,
                       shell=isinstance(cmd, str))
    if check and p.returncode != 0:
        raise RuntimeError("command failed (%d): %s\n%s" % (p.returncode, cmd, p.stdout[-4000:]))
    return p.returncode, p.stdout, time.time() - t0


def _hash_files(paths):
    h = hashlib.sha256()
    for p in sorted(paths):
        try:
            with open(p, "rb") as f:
                data = f.read()
        except OSError:
            continue
        h.update(p.encode())
        h.update(b"\0")
        h.update(hashlib.sha256(data).digest())
    return h.hexdigest()[:20]


def _walk(root, exts, skip=()):
    out = []
    for d, dirs, files in os.walk(root):
        dirs[:] = [x for x in dirs if x not in (".git", "_build", ".cache") and
                   os.path.join(d, x) not in skip]
        for f in files:
            if f.endswith(exts):
                out.append(os.path.join(d, f))
    return out


def repo_key():
    """Content hash of /repo's build inputs in the working tree (tracked or not)."""
    files = _walk(REPO, (".go", ".mod", ".sum", ".yaml", ".yml"))
    return _hash_files(files)


def verif_key():
    files = (_walk(HARNESS, (".go", ".mod")) + _walk(OCAML, (".ml", "dune", "dune-project"),
             skip=(os.path.join(OCAML, "gen"),)) + _walk(COQ, (".v", "_CoqProject")) +
             _walk(os.path.join(VERIF, "vlib"), (".py",)) + _walk(os.path.join(VERIF, "corpus"), ("",)))
    return _hash_files(files)


def coq_key():
    return _hash_files(_walk(COQ, (".v", "_CoqProject")))


# --------------------------------------------------------------------------- Coq

def coq_sources():
    out = []
    with open(os.path.join(COQ, "_CoqProject")) as f:
        for line in f:
            line = line.strip()
            if line.endswith(".v"):
                out.append(line)
    return out


def scan_forbidden():
    bad = []
    # the development = the files of _CoqProject (+ the extraction script)
    files = [os.path.join(COQ, v) for v in coq_sources()] + [os.path.join(COQ, "Extract", "Extract.v")]
    for v in files:
        with open(v) as f:
            txt = f.read()
        txt = re.sub(r"\(\*.*?\*\)", " ", txt, flags=re.S)
        for m in FORBIDDEN.finditer(txt):
            bad.append("%s: %s" % (os.path.relpath(v, VERIF), m.group(0)))
    return bad


def ensure_coq():
    """Incremental full .vo build of the development.  Returns (ok, log)."""
    with Lock("coq"):
        stamp = os.path.join(CACHE, "coq.ok")
        key = coq_key()
        if os.path.exists(stamp) and open(stamp).read() == key:
            return True, "up to date"
        if not os.path.exists(os.path.join(COQ, "Makefile")):
            run("coq_makefile -f _CoqProject -o Makefile", cwd=COQ, check=True)
        rc, out, _ = run("timeout 3000 make -j16", cwd=COQ, timeout=3100)
        with open(os.path.join(CACHE, "coq.log"), "w") as f:
            f.write(out)
        if rc == 0:
            with open(stamp, "w") as f:
                f.write(key)
        elif os.path.exists(stamp):
            os.remove(stamp)
        return rc == 0, out


def ensure_model():
    """Extraction + OCaml driver build (after the .vo build)."""
    with Lock("ocaml"):
        stamp = os.path.join(CACHE, "ocaml.ok")
        key = _hash_files(_walk(COQ, (".v",)) + _walk(OCAML, (".ml", "dune", "dune-project"),
                                                       skip=(os.path.join(OCAML, "gen"),)))
        if os.path.exists(stamp) and open(stamp).read() == key and os.path.exists(DRIVER):
            return True, "up to date"
        gen = os.path.join(OCAML, "gen")
        os.makedirs(gen, exist_ok=True)
        rc, out, _ = run("timeout 900 coqc -Q %s Verif %s/Extract/Extract.v" % (COQ, COQ), cwd=gen,
                         timeout=1000)
        if rc != 0:
            return False, out
        rc, out2, _ = run("timeout 900 dune build ./driver.exe", cwd=OCAML, timeout=1000)
        if rc != 0:
            return False, out + out2
        with open(stamp, "w") as f:
            f.write(key)
        return True, out + out2


def print_assumptions(prop, theorems):
    """Print Assumptions of the property theorems, evaluated now by coqc."""
    d = os.path.join(CACHE, "assump")
    os.makedirs(d, exist_ok=True)
    key = coq_key()
    outp = os.path.join(d, "%s.%s.txt" % (prop, key))
    if os.path.exists(outp):
        return open(outp).read()
    src = os.path.join(d, "A_%s.v" % prop)
    with open(src, "w") as f:
        f.write("From Verif.Properties Require Import %s.\n" % prop)
        for t in theorems:
            f.write("Print Assumptions %s.\n" % t)
    rc, out, _ = run("timeout 600 coqc -Q %s Verif %s" % (COQ, src), cwd=d, timeout=700)
    if rc != 0:
        out = "ERROR\n" + out
    else:
        with open(outp, "w") as f:
            f.write(out)
    return out


def count_obligations(prop):
    """Statements (Theorem/Lemma/Corollary/Example/Fact) in the dependency cone of
    Properties/<prop>.v inside the development, and how many of their files have an
    up-to-date .vo."""
    deps = {}
    srcs = coq_sources()
    for v in srcs:
        with open(os.path.join(COQ, v)) as f:
            txt = f.read()
        ds = set()
        for m in re.finditer(r"From\s+Verif(?:\.(\w+))?\s+Require\s+(?:Import|Export)?\s*([^.]*)\.", txt):
            pref, names = m.group(1), m.group(2).split()
            for nm in names:
                parts = ([pref] if pref else []) + nm.split(".")
                ds.add("/".join(parts) + ".v")
        deps[v] = ds
    root = "Properties/%s.v" % prop
    cone, todo = set(), [root]
    while todo:
        v = todo.pop()
        if v in cone or v not in deps:
            continue
        cone.add(v)
        todo.extend(deps[v])
    total = done = 0
    files = []
    for v in sorted(cone):
        with open(os.path.join(COQ, v)) as f:
            txt = re.sub(r"\(\*.*?\*\)", " ", f.read(), flags=re.S)
        n = len(re.findall(r"^\s*(?:Local\s+|Global\s+)?(?:Theorem|Lemma|Corollary|Example|Fact|Proposition)\s", txt, flags=re.M))
        vo = os.path.join(COQ, v[:-2] + ".vo")
        ok = os.path.exists(vo) and os.path.getmtime(vo) >= os.path.getmtime(os.path.join(COQ, v))
        total += n
        done += n if ok else 0
        files.append(v)
    return total, done, files


# ---------------------------------------------------------------------------- Go

def ensure_go(drivers, tags="verif"):
    """Build harness drivers against /repo's working tree.  Binaries are cached per repo key."""
    rk = repo_key()
    bindir = os.path.join(CACHE, "bin", rk + "-" + _hash_files(_walk(HARNESS, (".go", ".mod"))))
    with Lock("go"):
        os.makedirs(bindir, exist_ok=True)
        run("cp %s/go.sum %s/go.sum" % (REPO, HARNESS))
        for d in drivers:
            outp = os.path.join(bindir, d)
            if os.path.exists(outp):
                continue
            cwd = HARNESS
            if d.endswith(".test"):   # synctest drivers are test binaries
                cmd = [GO, "test", "-c", "-tags", tags, "-o", outp, "./" + d[:-5]]
            elif d.startswith("cmd-"):   # the repository's own command-line tools, built as shipped
                cmd = ["go", "build", "-o", outp, "./cmd/" + d[4:]]
                cwd = REPO
            else:
                cmd = [GO, "build", "-tags", tags, "-o", outp, "./" + d]
            rc, out, _ = run(cmd, cwd=cwd, env=GOENV, timeout=1200)
            if rc != 0:
                return None, out
        # keep only the three most recent bin dirs
        root = os.path.join(CACHE, "bin")
        ds = sorted((os.path.getmtime(os.path.join(root, x)), x) for x in os.listdir(root))
        for _, x in ds[:-3]:
            run("rm -rf %s" % os.path.join(root, x))
    return bindir, ""


def work_dir(prop, tier, seed):
    d = os.path.join(CACHE, "work", "%s-%s-%s-%s" % (prop, tier, seed, repo_key()))
    os.makedirs(d, exist_ok=True)
    return d


def shared_dir(name, tier, seed):
    """Work directory shared by the properties that project from one driver run; keyed by the
    contents of /repo and of /verif, so results are never reused across different trees."""
    d = os.path.join(CACHE, "shared", "%s-%s-%s-%s-%s" % (name, tier, seed, repo_key(), verif_key()))
    os.makedirs(d, exist_ok=True)
    root = os.path.join(CACHE, "shared")
    ds = sorted((os.path.getmtime(os.path.join(root, x)), x) for x in os.listdir(root))
    for _, x in ds[:-12]:
        run("rm -rf %s" % os.path.join(root, x))
    return d


# ------------------------------------------------------------------ known findings

def known_findings():
    p = os.path.join(VERIF, "known_findings.json")
    if not os.path.exists(p):
        return {"findings": [], "fixed": []}
    with open(p) as f:
        return json.load(f)


# ----------------------------------------------------------------------- evidence

def write_evidence(prop, tier, seed, coverage, assumptions, wall, violations, extra=None):
    ev = {
        "property_id": prop, "tier": tier, "seed": seed, "level": "proof",
        "coverage": coverage, "assumptions": assumptions, "wall_s": round(wall, 2),
        "violations": violations,
    }
    if extra:
        ev.update(extra)
    os.makedirs(os.path.join(VERIF, "evidence"), exist_ok=True)
    with open(os.path.join(VERIF, "evidence", prop + ".json"), "w") as f:
        json.dump(ev, f, indent=1, sort_keys=True)
        f.write("\n")


def write_replay(prop, seed, n, payload):
    os.makedirs(os.path.join(VERIF, "replays"), exist_ok=True)
    p = os.path.join(VERIF, "replays", "%s-%s-%d.json" % (prop, seed, n))
    with open(p, "w") as f:
        json.dump(payload, f, indent=1)
        f.write("\n")
    return os.path.relpath(p, VERIF)
