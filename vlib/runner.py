"""runner.py — generic check flow: proofs, correspondence units, verdict, evidence."""
import json
import os
import sys
import time

from . import core
from .core import log


class Unit:
    """One correspondence unit: produces analyser output lines.

    run(ctx) must return a dict:
      lines      analyser output (MISMATCH / FAIL <prop> <clause> :: detail / SUMMARY / SAMPLE / STAT)
      inputs     path of the inputs/observations that were analysed (for replays)
      error      optional fatal error text (harness failed to build/run)
    """

    def __init__(self, name, fn):
        self.name, self.fn = name, fn


class Ctx:
    def __init__(self, prop, tier, seed, bindir, work):
        self.prop, self.tier, self.seed, self.bindir, self.work = prop, tier, seed, bindir, work

    def bin(self, name):
        return os.path.join(self.bindir, name)


def parse_lines(prop, lines):
    res = {"mismatch": [], "fail": [], "summary": [], "samples": [], "stats": {}}
    for ln in lines:
        if ln.startswith("MISMATCH "):
            res["mismatch"].append(ln)
        elif ln.startswith("FAIL "):
            parts = ln.split(" ", 3)
            if len(parts) >= 3 and parts[1] == prop:
                res["fail"].append(ln)
        elif ln.startswith("SUMMARY "):
            res["summary"].append(ln)
        elif ln.startswith("SAMPLE "):
            if len(res["samples"]) < 6:
                res["samples"].append(ln[7:])
        elif ln.startswith("STAT "):
            for kv in ln[5:].split():
                if "=" in kv:
                    k, v = kv.split("=", 1)
                    try:
                        res["stats"][k] = res["stats"].get(k, 0) + int(v)
                    except ValueError:
                        res["stats"][k] = v
    return res


def match_known(prop, fail_line, findings):
    """A failure matches a known finding iff same property and clause and the finding's
    'match' tokens all occur in the failure's detail."""
    parts = fail_line.split(" ", 3)
    clause = parts[2] if len(parts) > 2 else ""
    detail = parts[3] if len(parts) > 3 else ""
    for f in findings:
        if f.get("property") != prop:
            continue
        if f.get("clause") and f["clause"] != clause:
            continue
        if all(tok in detail for tok in f.get("match", [])):
            return f
    return None


def check(prop, spec, tier, seed, replay=None):
    t0 = time.time()
    violations = []          # (kind, text, replay payload)
    notes = []

    # ---- proofs
    forbidden = core.scan_forbidden()
    ok_coq, coq_log = core.ensure_coq()
    ok_model, model_log = (False, "skipped") if not ok_coq else core.ensure_model()
    obligations, discharged, cone = core.count_obligations(prop)
    assump = core.print_assumptions(prop, spec["theorems"]) if ok_coq else "ERROR coq build failed"
    proof_ok = ok_coq and ok_model and not forbidden and obligations > 0 and \
        obligations == discharged and not assump.startswith("ERROR")
    closed = all(("Closed under the global context" in blk) for blk in
                 [b for b in assump.split("\n\n") if b.strip()]) if proof_ok else False
    if not proof_ok:
        detail = {"forbidden": forbidden, "coq_ok": ok_coq, "model_ok": ok_model,
                  "obligations": obligations, "discharged": discharged,
                  "log_tail": (coq_log if not ok_coq else model_log)[-3000:],
                  "theorem": "Properties/%s.v: %s" % (prop, ", ".join(spec["theorems"]))}
        violations.append(("proof", "proof obligations of %s no longer check" % prop, detail))

    # ---- correspondence
    results = {"mismatch": [], "fail": [], "summary": [], "samples": [], "stats": {}}
    inputs = []
    bindir = None
    if ok_model:
        bindir, err = core.ensure_go(spec.get("drivers", []))
        if bindir is None:
            violations.append(("harness", "harness does not build against /repo",
                               {"log_tail": err[-3000:], "correspondence": "go build of " + ",".join(spec.get("drivers", []))}))
    unit_results = []
    ctx = None
    if ok_model and bindir is not None:
        ctx = Ctx(prop, tier, seed, bindir, core.work_dir(prop, tier, seed))
        for unit in spec["units"]:
            try:
                r = unit.fn(ctx)
            except Exception as e:  # a crashed unit is a broken tie, not a pass
                r = {"lines": [], "error": "%s: %r" % (unit.name, e)}
            if r.get("error"):
                violations.append(("harness", "correspondence unit %s failed to run" % unit.name,
                                   {"error": r["error"][-3000:], "correspondence": unit.name}))
                continue
            unit_results.append((unit, r))
            pr = parse_lines(prop, r["lines"])
            for k in ("mismatch", "fail", "summary", "samples"):
                results[k].extend(pr[k])
            for k, v in pr["stats"].items():
                if isinstance(v, int):
                    results["stats"][k] = results["stats"].get(k, 0) + v
                else:
                    results["stats"][k] = v
            if r.get("inputs"):
                inputs.append(r["inputs"])

    # ---- verdict
    kf = core.known_findings()
    known_hit = {}
    unknown_fail = []
    for fl in results["fail"]:
        f = match_known(prop, fl, kf.get("findings", []))
        if f is not None:
            known_hit.setdefault(f["id"], (f, fl))
        else:
            unknown_fail.append(fl)
    # mismatches inside a known class are not a broken tie; a property only depends on the
    # kinds of observables it projects
    import re as _re
    kinds = spec.get("mismatch_kinds")
    unknown_mis = []
    for ml in results["mismatch"]:
        if kinds is not None:
            kind = ml[len("MISMATCH "):].split(" h=", 1)[0].split(" :: ", 1)[0]
            if not any(_re.search(k, kind) for k in kinds):
                continue
        if match_known(prop, "FAIL %s  %s" % (prop, ml), [dict(f, clause="") for f in kf.get("findings", [])
                                                              if f.get("covers_mismatch")]) is None:
            unknown_mis.append(ml)

    # ---- the tie is broken but no checker failed: directed search for a failing input (extends the
    #      diverging prefixes; see ocaml/ext.ml) before reporting no-failing-input-found
    if unknown_mis and not unknown_fail and ctx is not None:
        from . import props as _props
        for unit, r in unit_results:
            esc = _props.ESCALATE.get(unit.name)
            if esc is None or r.get("error"):
                continue
            try:
                extra = esc(ctx, r)
            except Exception as e:   # the search is best effort
                notes.append("escalation of %s failed: %r" % (unit.name, e))
                extra = []
            for fl in parse_lines(prop, extra)["fail"]:
                f = match_known(prop, fl, kf.get("findings", []))
                if f is not None:
                    known_hit.setdefault(f["id"], (f, fl))
                else:
                    unknown_fail.append(fl + "   [found by the directed search after the correspondence broke]")
            results["stats"]["escalated_units"] = results["stats"].get("escalated_units", 0) + 1

    out_lines = []
    for fid, (f, fl) in sorted(known_hit.items()):
        out_lines.append("KNOWN-FINDING: property=%s %s" % (prop, f["what"]))
    nrep = 0
    exit_code = 0
    if unknown_fail:
        payload = {"property": prop, "kind": "property fails on the implementation",
                   "failures": unknown_fail[:20], "inputs": inputs, "seed": seed, "tier": tier,
                   "rerun": "./check %s --tier %s  (VERIF_SEED=%s)" % (prop, tier, seed)}
        p = core.write_replay(prop, seed, nrep, payload)
        nrep += 1
        out_lines.append("VIOLATION property=%s replay=%s" % (prop, p))
        exit_code = 1
    elif unknown_mis or violations:
        payload = {"property": prop,
                   "kind": "tie between model and /repo is broken; no failing input for the property was found",
                   "theorem_or_correspondence": [v[1] for v in violations] +
                   (["correspondence of %s: %d diverging observations" % (",".join(u.name for u in spec["units"]), len(unknown_mis))] if unknown_mis else []),
                   "details": [v[2] for v in violations], "diverging": unknown_mis[:20],
                   "inputs": inputs, "seed": seed, "tier": tier}
        p = core.write_replay(prop, seed, nrep, payload)
        out_lines.append("VIOLATION property=%s replay=%s no-failing-input-found" % (prop, p))
        exit_code = 1

    # ---- evidence
    wall = time.time() - t0
    evaluations = int(results["stats"].get("evaluations", 0))
    coverage = {
        "obligations": obligations, "discharged": discharged,
        "checker_cmd": "cd coq && coq_makefile -f _CoqProject -o Makefile && make -j16   # full .vo build; thorough tier adds: coqchk -silent -o -Q . Verif Verif.Properties.%s" % prop,
        "trusted_base": core.TRUSTED_BASE,
        "theorems": spec["theorems"], "proof_files": cone,
        "print_assumptions": assump.strip().splitlines()[:40],
        "closed_under_global_context": closed,
        "evaluations": evaluations,
        "distinct_nontrivial": int(results["stats"].get("nontrivial", 0)),
        "rule": spec.get("rule", ""),
        "samples": results["samples"][:6] or ["(no samples: correspondence did not run)"],
        "correspondence": {"units": [u.name for u in spec["units"]], "diverging": len(results["mismatch"]),
                           "property_failures_on_impl": len(results["fail"]),
                           "known": sorted(known_hit), "summaries": results["summary"],
                           "stats": results["stats"]},
        "exhaustive": False,
    }
    core.write_evidence(prop, tier, seed, coverage, spec.get("assumptions", []), wall,
                        0 if exit_code == 0 else 1)
    for ln in results["summary"]:
        log(ln)
    log("proof: %s (%d/%d statements in %d files; %s)" % (
        "ok" if proof_ok else "BROKEN", discharged, obligations, len(cone),
        "closed under the global context" if closed else "see print_assumptions"))
    for ln in out_lines:
        log(ln)
    log("%s %s tier=%s seed=%s wall=%.1fs exit=%d" % (prop, "PASS" if exit_code == 0 else "FAIL", tier, seed, wall, exit_code))
    return exit_code
