(* chk_util.ml — IDSequence / TransactionStore observations of drv_util against the model
   (Util/IdSeq.v) and against the statement of C29. *)
open Model
open Conv

let rec nat_of_int (k : int) : nat = if k <= 0 then O else S (nat_of_int (k - 1))

let run (path : string) =
  let total = ref 0 and mism = ref 0 and fails = ref 0 and nontriv = ref 0 and samples = ref 0 in
  let mismatch what line = incr mism; if !mism <= 30 then Printf.printf "MISMATCH %s :: %s\n" what (Chk_codec.clip line) in
  let fail clause line = incr fails; if !fails <= 30 then Printf.printf "FAIL C29 %s :: %s\n" clause (Chk_codec.clip line) in
  List.iter (fun line ->
      match split_on ' ' line with
      | "Q" :: mn :: mx :: n :: ":" :: res ->
        incr total; incr nontriv;
        if !samples < 2 && List.length res < 20 then (incr samples; Printf.printf "SAMPLE %s\n" line);
        let mn = int_of_string mn and mx = int_of_string mx and n = int_of_string n in
        (* model, iteratively (q_run builds the whole list; use q_step to stay linear) *)
        let c = ref (q_new (n_of_int mn) (n_of_int mx)) in
        let width = mx - mn + 1 in
        List.iteri (fun j r ->
            let ((id, ov), c') = q_step !c in
            c := c';
            let m = Printf.sprintf "%d/%d" (int_of_n id) (if ov then 1 else 0) in
            if m <> r then mismatch (Printf.sprintf "Next() call %d model=%s impl=%s" j m r) line;
            (* C29 on the implementation's answer: min..max in order, wraps to min, overflow
               exactly on the first value after a wrap *)
            let want = Printf.sprintf "%d/%d" (mn + (j mod width)) (if j > 0 && j mod width = 0 then 1 else 0) in
            if want <> r then fail "sequence" (Printf.sprintf "call %d expected %s got %s :: %s" j want r line)) res;
        if List.length res <> n then mismatch "result count" line
      | "QC" :: mn :: mx :: g :: per :: ":" :: ids :: "/" :: [ovs] ->
        incr total; incr nontriv;
        (* concurrent callers together get exactly the sequential prefix (as a multiset) *)
        let mn = int_of_string mn and mx = int_of_string mx in
        let n = int_of_string g * int_of_string per in
        let width = mx - mn + 1 in
        let want = List.sort compare (List.init n (fun j -> mn + (j mod width))) in
        let got = List.map int_of_string (split_on ',' ids) in
        if got <> want then fail "concurrent-multiset" line;
        let want_ov = (n - 1) / width in
        if int_of_string ovs <> want_ov then fail "concurrent-overflow-count" line
      | "ST" :: rest ->
        incr total;
        let rec cut acc = function ":" :: r -> (List.rev acc, r) | x :: r -> cut (x :: acc) r | [] -> (List.rev acc, []) in
        let (ops, res) = cut [] rest in
        let tagn (t : string) = n_of_int (Char.code t.[0]) in
        let parse_op (o : string) : st_op =
          let num s = n_of_int (int_of_string s) in
          if String.length o > 2 && String.sub o 0 2 = "ST" then
            (match split_on '=' (String.sub o 2 (String.length o - 2)) with [ty; tg] -> OpStoreByType (num ty, tagn tg) | _ -> failwith o)
          else if String.length o > 2 && String.sub o 0 2 = "GT" then OpGetByType (num (String.sub o 2 (String.length o - 2)))
          else if String.length o > 2 && String.sub o 0 2 = "DT" then OpDeleteByType (num (String.sub o 2 (String.length o - 2)))
          else (match o.[0] with
              | 'S' -> (match split_on '=' (String.sub o 1 (String.length o - 1)) with [id; tg] -> OpStore (num id, tagn tg) | _ -> failwith o)
              | 'G' -> OpGet (num (String.sub o 1 (String.length o - 1)))
              | 'D' -> OpDelete (num (String.sub o 1 (String.length o - 1)))
              | 'I' -> (match split_on '=' (String.sub o 1 (String.length o - 1)) with [id; tg] -> OpDeleteIf (num id, tagn tg) | _ -> failwith o)
              | _ -> failwith o) in
        let s = ref st_new in
        let mres = List.map (fun o -> let (r, s') = st_step !s (parse_op o) in s := s';
                              match r with Some t -> String.make 1 (Char.chr (int_of_n t)) | None -> "-") ops in
        if List.exists (fun r -> r <> "-") res then incr nontriv;
        if mres <> res then begin mismatch ("store model=" ^ String.concat " " mres) line; fail "store-map-laws" line end
      | "STD" :: rest ->
        incr total; incr nontriv;
        let tbl = Gw_io.kv_tbl rest in
        if (try int_of_string (Hashtbl.find tbl "lost") with _ -> 1) <> 0 then begin
          mismatch "store DeleteIf concurrent with Store lost the new entry" line;
          fail "delete-if-not-atomic" line end
      | "STC" :: _ ->
        incr total; incr nontriv;
        if not (List.mem "linearizable=1" (split_on ' ' line)) then fail "store-not-linearizable" line
      | _ -> ())
    (read_lines path);
  Printf.printf "STAT evaluations=%d nontrivial=%d\n" !total !nontriv;
  Printf.printf "SUMMARY util lines=%d mismatches=%d failures=%d\n" !total !mism !fails
