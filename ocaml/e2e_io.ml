(* e2e_io.ml — end-to-end history/trace text formats (harness/E2E_SPEC.md). *)
open Model
open Conv

type ehistory = { eidx : int; ecfg : e2e_cfg; ehline : string; eevents : (string * sys_event) list }

let faults_of_string (s : string) : fault list =
  if s = "-" then [] else
    List.init (String.length s) (fun k -> match s.[k] with 'd' -> FDeliver | 'x' -> FDrop | '2' -> FDup | _ -> failwith "bad fault")
let fault_char = function FDeliver -> "d" | FDrop -> "x" | FDup -> "2"

let rec split_at (tag : string) (l : string list) : string list * string list =
  match l with
  | [] -> ([], [])
  | x :: r -> if x = tag then ([], r) else let (a, b) = split_at tag r in (x :: a, b)

let parse_cfg (toks : string list) : e2e_cfg =
  (* GW ... CL ... LINK ... *)
  let (_, rest) = split_at "GW" toks in
  let (gw, rest) = split_at "CL" rest in
  let (cl, link) = split_at "LINK" rest in
  let ltbl = Gw_io.kv_tbl link in
  { e_gw = Gw_io.parse_cfg gw; e_cl = Cl_io.parse_cfg cl;
    e_c2g = faults_of_string (Hashtbl.find ltbl "c2g"); e_g2c = faults_of_string (Hashtbl.find ltbl "g2c") }

let parse_event (text : string) : sys_event =
  match split_on ' ' text with
  | ("CALL" | "CALLS") :: id :: rest -> SCall (n_of_int (int_of_string id), Cl_io.parse_api rest)
  | ("BPUB" | "BPUBS") :: rest -> SBpub (Gw_io.parse_mq rest)
  | "BBURST" :: rest ->
    (* PUBLISH specs separated by "|" *)
    let rec groups cur acc = function
      | [] -> List.rev (List.rev cur :: acc)
      | "|" :: r -> groups [] (List.rev cur :: acc) r
      | x :: r -> groups (x :: cur) acc r in
    SBurst (List.map Gw_io.parse_mq (groups [] [] rest))
  | ["ADV"; d] -> SAdv (n_of_int (int_of_string d))
  | _ -> failwith ("bad e2e event " ^ text)

let read_histories (path : string) : ehistory list =
  let res = ref [] and cur = ref None in
  List.iter (fun line ->
      if String.length line = 0 || line.[0] = '#' then ()
      else if line.[0] = 'H' then begin
        match split_on ' ' line with
        | "H" :: idx :: rest -> cur := Some { eidx = int_of_string idx; ecfg = parse_cfg rest; ehline = line; eevents = [] }
        | _ -> failwith "bad H line" end
      else if line = "END" then begin
        (match !cur with Some hst -> res := { hst with eevents = List.rev hst.eevents } :: !res | None -> ());
        cur := None end
      else if String.length line > 2 && line.[0] = 'E' then begin
        let text = String.sub line 2 (String.length line - 2) in
        match !cur with
        | Some hst -> cur := Some { hst with eevents = (text, parse_event text) :: hst.eevents }
        | None -> failwith "E line outside history" end)
    (read_lines path);
  List.rev !res

let i = int_of_n
let h = hex_of_bytes

(* (time, text) lines of one model output *)
let out_text (o : sys_out) : (int * string) list =
  match o with
  | SoC2G (t, f, dg) -> [(i t, "C2G " ^ fault_char f ^ " " ^ h dg)]
  | SoG2C (t, f, dg) -> [(i t, "G2C " ^ fault_char f ^ " " ^ h dg)]
  | SoBR (t, m) -> [(i t, "BR " ^ Gw_io.mq_spec m)]
  | SoBS (t, m) -> [(i t, "BS " ^ Gw_io.mq_spec m)]
  | SoRet (t, id, r) -> [(i t, Printf.sprintf "RET %d %s" (i id) (Cl_io.res_name r))]
  | SoCb (t, sub, topic, payload, q, r, d, mid) ->
    [(i t, Printf.sprintf "CB %d %s %s qos=%d retain=%d dup=%d mid=%d" (i sub) (h topic) (h payload) (i q)
        (Gw_io.b2i r) (Gw_io.b2i d) (i mid))]
  | SoExit t -> [(i t, "EXIT")]
  | SoGwEnd t -> [(i t, "BRCLOSE"); (i t, "GWEND")]

let run_model (hist : string) (out : string) =
  let hs = read_histories hist in
  let oc = if out = "-" then stdout else open_out out in
  List.iter (fun hst ->
      Printf.fprintf oc "H %d\n" hst.eidx;
      let y = ref (sys_init hst.ecfg) in
      List.iteri (fun k (text, ev) ->
          Printf.fprintf oc "E %d %s\n" k text;
          let (y', outs) = sys_step hst.ecfg !y ev in
          y := y';
          List.iter (fun o -> List.iter (fun (t, x) -> Printf.fprintf oc "O %d %s\n" t x) (out_text o)) outs)
        hst.eevents;
      output_string oc "END\n")
    hs;
  if out <> "-" then close_out oc
