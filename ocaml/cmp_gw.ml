(* cmp_gw.ml — gateway correspondence: run the extracted model over a history file and
   compare, event by event, with the trace the real gateway produced (drv_gw); apply
   the extracted property checkers to the implementation's outputs.

   Output lines (consumed by ./check):
     MISMATCH <kind> h=<idx> e=<k> :: model=<...> impl=<...>     first divergence of a history
     FAIL <prop> <clause> h=<idx> e=<k> :: <detail>
     STAT / SUMMARY / SAMPLE
   <kind> names what diverged (SN:<PacketKind>, MQ:<KIND>, END, EXTRA, MISSING, PANIC, LEAK)
   so that each property only looks at the divergences it depends on. *)
open Model
open Conv

open Chk_gw   (* iout: text without the time; bad = MQBAD rules *)

type ihist = { hidx : int; evs : (string * iout list) list; xs : string list }

let parse_impl (path : string) : (int, ihist) Hashtbl.t =
  let tbl = Hashtbl.create 1024 in
  let cur = ref None in
  let flush_cur () = match !cur with
    | Some (idx, evs, xs) ->
      Hashtbl.replace tbl idx { hidx = idx; evs = List.rev_map (fun (e, os) -> (e, List.rev os)) evs; xs = List.rev xs }
    | None -> () in
  List.iter (fun line ->
      match split_on ' ' line with
      | ["H"; idx] -> flush_cur (); cur := Some (int_of_string idx, [], [])
      | "E" :: _ :: rest ->
        (match !cur with Some (i, evs, xs) -> cur := Some (i, (String.concat " " rest, []) :: evs, xs) | None -> ())
      | "O" :: t :: rest ->
        (match !cur with
         | Some (i, (e, os) :: evs, xs) ->
           let (text, bad) = (match rest with
               | "MQBAD" :: rules :: r -> ("MQ " ^ String.concat " " r, rules)
               | r -> (String.concat " " r, "")) in
           cur := Some (i, (e, { t = int_of_string t; text; bad } :: os) :: evs, xs)
         | _ -> ())
      | "X" :: rest -> (match !cur with Some (i, evs, xs) -> cur := Some (i, evs, String.concat " " rest :: xs) | None -> ())
      | _ -> ())
    (read_lines path);
  flush_cur ();
  tbl

let model_outs (o : gw_out) : iout list =
  match o with
  | OutSn (t, dg) -> [{ t = int_of_n t; text = "SN " ^ hex_of_bytes dg; bad = "" }]
  | OutMq (t, m) -> [{ t = int_of_n t; text = "MQ " ^ Gw_io.mq_spec m; bad = "" }]
  | OutCancel _ -> []
  | OutEnd t -> let t = int_of_n t in [{ t; text = "CLOSE"; bad = "" }; { t; text = "SNCLOSE"; bad = "" }; { t; text = "END"; bad = "" }]

let kind_of_text (text : string) : string =
  match split_on ' ' text with
  | ["SN"; hx] ->
    (match read_dgram (bytes_of_hex hx) with
     | Ok p -> "SN:" ^ (match split_on ' ' (Ptext.text p) with k :: _ -> k | [] -> "?")
     | _ -> "SN:undecodable")
  | "MQ" :: k :: _ -> "MQ:" ^ k
  | k :: _ -> k
  | [] -> "?"

(* outputs equal up to the choice among several topic IDs registered for one name *)
let eqv (cfg : gw_cfg) (s : gw_state) (m : iout) (im : iout) : bool =
  m.t = im.t &&
  (m.text = im.text ||
   (match split_on ' ' m.text, split_on ' ' im.text with
    | ["SN"; a], ["SN"; b] ->
      (match read_dgram (bytes_of_hex a), read_dgram (bytes_of_hex b) with
       | Ok (Regack (t1, m1, r1)), Ok (Regack (t2, m2, r2)) ->
         m1 = m2 && r1 = r2 && nmap_lookup t1 s.gw_registered <> None &&
         nmap_lookup t1 s.gw_registered = nmap_lookup t2 s.gw_registered
       | Ok (Publish (d1, q1, r1, ti1, t1, m1, p1)), Ok (Publish (d2, q2, r2, ti2, t2, m2, p2)) ->
         d1 = d2 && q1 = q2 && r1 = r2 && ti1 = ti2 && m1 = m2 && p1 = p2 &&
         (match int_of_n ti1 with
          | 0 -> nmap_lookup t1 s.gw_registered <> None && nmap_lookup t1 s.gw_registered = nmap_lookup t2 s.gw_registered
          | 1 -> (* several predefined IDs of one name: Go's map iteration order picks one.  A retransmission
                    (DUP) repeats the ID chosen when the packet was first built, possibly under the client ID
                    of an earlier CONNECT of this session: any client ID of the configuration may have been it *)
            let same cid = (let nm t = get_name cfg.predefined cid t in nm t1 <> None && nm t1 = nm t2) in
            same s.gw_client_id || (d1 && List.exists (fun (cid, _) -> same cid) cfg.predefined)
          | _ -> false)
       | _ -> false)
    | _ -> false))

let clip s = if String.length s > 400 then String.sub s 0 400 ^ "..." else s
let show (o : iout) = Printf.sprintf "%d %s" o.t o.text

let run (hist : string) (impl : string) =
  let hs = Gw_io.read_histories hist in
  let itbl = parse_impl impl in
  let nh = ref 0 and nev = ref 0 and nout = ref 0 and ndiv = ref 0 and nfail = ref 0 and nside = ref 0 in
  let kinds = Hashtbl.create 64 in
  let bump k = Hashtbl.replace kinds k (1 + (try Hashtbl.find kinds k with Not_found -> 0)) in
  let nontriv = Hashtbl.create 1024 in
  List.iter (fun (hst : Gw_io.history) ->
      incr nh;
      let ih = (try Some (Hashtbl.find itbl hst.idx) with Not_found -> None) in
      let diverged = ref false in
      let mismatch kind k detail =
        if not !diverged then begin
          diverged := true; incr ndiv;
          Printf.printf "MISMATCH %s h=%d e=%d :: %s\n" kind hst.idx k (clip detail) end in
      let fail prop clause k detail =
        incr nfail; Printf.printf "FAIL %s %s h=%d e=%d :: %s\n" prop clause hst.idx k (clip detail) in
      (match ih with
       | None -> mismatch "MISSING-HISTORY" 0 "history absent from the implementation trace"
       | Some ih ->
         List.iter (fun x ->
             let w = (match split_on ' ' x with w :: _ -> w | [] -> "?") in
             mismatch w 0 x;
             if w = "PANIC" then (fail "C25" "session-panics" 0 x; fail "C13" "session-panics" 0 x);
             if w = "LEAK" then fail "C13" "goroutine-leak" 0 x) ih.xs;
         let s = ref (init_state hst.cfg) in
         let mon = ref Chk_gw.hstate_init in
         let ievs = Array.of_list ih.evs in
         List.iteri (fun k (text, ev) ->
             incr nev;
             let (s', outs) = gw_step hst.cfg !s ev in
             (* the executable side condition of the timed theorems: steps that fail it are outside them *)
             if not (clock_ok hst.cfg !s ev) then incr nside;
             let mouts = List.concat_map model_outs outs in
             let iouts = if k < Array.length ievs then snd ievs.(k) else [] in
             if k >= Array.length ievs then mismatch "MISSING-EVENT" k ("event not executed by the implementation: " ^ text);
             nout := !nout + List.length iouts;
             List.iter (fun (o : iout) -> bump (kind_of_text o.text)) iouts;
             if iouts <> [] then Hashtbl.replace nontriv (hst.hline ^ text ^ String.concat "|" (List.map show iouts)) ();
             (* property checkers on the implementation's outputs, in the model's state context *)
             (* Go's map iteration order picks one of several topic IDs that denote the same name for this
                client (findRegisteredTopicID, GetTopicID); the model picks the least.  Where the two
                outputs are equal up to that choice the checkers see the model's representative. *)
             let rec canon ms is =
               match ms, is with
               | (m : iout) :: ms', (i : iout) :: is' ->
                 (if m.text <> i.text && eqv hst.cfg !s m i then { i with text = m.text } else i) :: canon ms' is'
               | _, is -> is in
             let ciouts = canon mouts iouts in
             let (fails, mon') = Chk_gw.step hst.cfg !s s' ev ciouts outs !mon in
             mon := mon';
             List.iter (fun (p, c) ->
                 fail p c k (Printf.sprintf "event=%s impl=[%s]" text (String.concat "; " (List.map show iouts)))) fails;
             (* correspondence *)
             let rec cmp ms is =
               match ms, is with
               | [], [] -> ()
               | m :: ms', i :: is' ->
                 if eqv hst.cfg !s m i then cmp ms' is'
                 else mismatch (kind_of_text (if m.text = i.text then "TIME" else i.text)) k
                     (Printf.sprintf "model=[%s] impl=[%s] event=%s" (show m) (show i) text)
               | m :: _, [] -> mismatch ("MISSING " ^ kind_of_text m.text) k (Printf.sprintf "model=[%s] impl=nothing event=%s" (show m) text)
               | [], i :: _ -> mismatch ("EXTRA " ^ kind_of_text i.text) k (Printf.sprintf "model=nothing impl=[%s] event=%s" (show i) text) in
             cmp mouts iouts;
             s := s')
           hst.events))
    hs;
  let ks = Hashtbl.fold (fun k v acc -> (k, v) :: acc) kinds [] |> List.sort compare in
  Printf.printf "STAT evaluations=%d nontrivial=%d histories=%d outputs=%d side_condition_failed_steps=%d\n" !nev (Hashtbl.length nontriv) !nh !nout !nside;
  Printf.printf "SUMMARY gw histories=%d events=%d outputs=%d diverging=%d failures=%d kinds=%s\n" !nh !nev !nout !ndiv !nfail
    (String.concat "," (List.map (fun (k, v) -> k ^ ":" ^ string_of_int v) ks))
