(* chk_e2e.ml — converts the implementation's end-to-end observations to [sys_out] and runs the
   extracted C16 / C26 monitor. *)
open Model
open Conv


let fault_of = function "x" -> FDrop | "2" -> FDup | _ -> FDeliver

let out_of (t : int) (text : string) : sys_out list =
  let nt = n_of_int t in
  match split_on ' ' text with
  | ["C2G"; f; hx] -> [SoC2G (nt, fault_of f, bytes_of_hex hx)]
  | ["G2C"; f; hx] -> [SoG2C (nt, fault_of f, bytes_of_hex hx)]
  | "BR" :: ("MQBAD" | "MQGARBAGE") :: _ -> []
  | "BR" :: rest -> (try [SoBR (nt, Gw_io.parse_mq rest)] with _ -> [])
  | "BS" :: rest -> (try [SoBS (nt, Gw_io.parse_mq rest)] with _ -> [])
  | ["RET"; id; r] -> (try [SoRet (nt, n_of_int (int_of_string id), Chk_cl.res_of r)] with _ -> [])
  | "CB" :: sub :: topic :: payload :: rest ->
    let tbl = Gw_io.kv_tbl rest in
    let g k = int_of_string (Hashtbl.find tbl k) in
    (try [SoCb (nt, n_of_int (int_of_string sub), bytes_of_hex topic, bytes_of_hex payload, n_of_int (g "qos"),
                g "retain" <> 0, g "dup" <> 0, n_of_int (g "mid"))] with _ -> [])
  | ["EXIT"] -> [SoExit nt]
  | ["GWEND"] -> [SoGwEnd nt]
  | _ -> []

(* the class of the recorded C26 / C16 finding, visible on the wire: the gateway has sent REGISTERs with
   different topic IDs for one topic name (a burst of broker messages on a not-yet-registered topic) *)
type hstate = { em : emon; em_m : emon (* the same monitor over the MODEL's own outputs *); regs : (string * int) list; two_regs : bool }
let hinit = { em = emon_init; em_m = emon_init; regs = []; two_regs = false }

(* failures carry "model=fails" when the composed model fails the same clause in the same step (the
   situation of a refutation theorem; the only thing a recorded finding may describe), else "model=holds" *)
let step (cfg : e2e_cfg) (y : sys) (y' : sys) (ev : sys_event) (iouts : (int * string) list) (mouts : sys_out list) (h : hstate)
  : (string * string) list * hstate =
  let os = List.concat_map (fun (t, x) -> out_of t x) iouts in
  let regs = ref h.regs and two = ref h.two_regs in
  List.iter (fun o -> match o with
      | SoG2C (_, _, dg) ->
        (match read_dgram dg with
         | Ok (Register (tid, _, name)) ->
           let nm = hex_of_bytes name and tid = int_of_n tid in
           if List.exists (fun (n, t) -> n = nm && t <> tid) !regs then two := true;
           if not (List.mem (nm, tid) !regs) then regs := (nm, tid) :: !regs
         | _ -> ())
      | _ -> ()) os;
  let (m', f) = emon_step cfg y y' ev os h.em in
  let (mm', fm) = emon_step cfg y y' ev mouts h.em_m in
  let st = (match y.y_cl.cl_st with Disconnected -> "disconnected" | Active -> "active" | Asleep -> "asleep" | Awake -> "awake") in
  (List.map (fun (p, c) -> (Printf.sprintf "C%02d" (int_of_n p),
                            Printf.sprintf "clause%d client=%s%s%s" (int_of_n c) st
                              (if !two then " class=two-registers-for-one-name" else "")
                              (if List.mem (p, c) fm then " model=fails" else " model=holds"))) f,
   { em = m'; em_m = mm'; regs = !regs; two_regs = !two })
