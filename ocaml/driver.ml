(* driver.ml — entry point: runs the extracted model/checkers on driver output. *)
let () =
  match Array.to_list Sys.argv with
  | [_; "chk-topics"; path] -> Chk_topics.run path
  | [_; "chk-codec"; path] -> Chk_codec.run path
  | [_; "run-gw"; hist; out] -> Gw_io.run_model hist out
  | [_; "cmp-gw"; hist; impl] -> Cmp_gw.run hist impl
  | [_; "chk-match"; path] -> Chk_match.run path
  | [_; "chk-cli"; path] -> Chk_cli.run path
  | [_; "chk-util"; path] -> Chk_util.run path
  | [_; "cmp-txn"; hist; impl] -> Cmp_txn.run hist impl
  | [_; "gen-txn"; seed; n; out] -> Gen_txn.run (int_of_string seed) (int_of_string n) out
  | [_; "cmp-cl"; hist; impl] -> Cmp_cl.run hist impl
  | [_; "gen-cl"; seed; n; out] -> Gen_cl.run (int_of_string seed) (int_of_string n) out
  | [_; "gen-cl-ka"; seed; n; out] -> Gen_cl.run_ka (int_of_string seed) (int_of_string n) out
  | [_; "run-cl"; hist; out] -> Cl_io.run_model hist out
  | [_; "ext-cl"; hist; res; out] -> Ext.ext_cl hist res out
  | [_; "ext-gw"; hist; res; out] -> Ext.ext_gw hist res out
  | [_; "run-e2e"; hist; out] -> E2e_io.run_model hist out
  | [_; "gen-e2e"; seed; n; out] -> Gen_e2e.run (int_of_string seed) (int_of_string n) out
  | [_; "cmp-e2e"; hist; impl] -> Cmp_e2e.run hist impl
  | [_; "gen-gw-multi"; seed; groups; k; out] -> Gen_gw.run_multi (int_of_string seed) (int_of_string groups) (int_of_string k) out
  | [_; "gen-gw"; seed; n; out] -> Gen_gw.run (int_of_string seed) (int_of_string n) out
  | _ -> prerr_endline "usage: driver chk-topics <file>"; exit 2
