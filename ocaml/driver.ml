(* driver.ml — entry point: runs the extracted model/checkers on driver output. *)
let () =
  match Array.to_list Sys.argv with
  | [_; "chk-topics"; path] -> Chk_topics.run path
  | [_; "chk-codec"; path] -> Chk_codec.run path
  | _ -> prerr_endline "usage: driver chk-topics <file>"; exit 2
