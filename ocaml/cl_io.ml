(* cl_io.ml — client history/trace text formats (harness/FORMATS.md, "Client histories"). *)
open Model
open Conv

let i = int_of_n
let h = hex_of_bytes
let b2i b = if b then 1 else 0

type chistory = { cidx : int; ccfg : cl_cfg; chline : string; cevents : (string * cl_event) list }

let parse_cfg (toks : string list) : cl_cfg =
  let tbl = Gw_io.kv_tbl toks in
  let g k = Hashtbl.find tbl k in
  let n k = n_of_int (int_of_string (g k)) in
  let x k = let v = g k in if v = "-" then [] else bytes_of_hex v in
  { k_cid = x "cid"; k_user = x "user"; k_pass = x "pass"; k_keepalive = n "keepalive"; k_ctimeout = n "ctimeout";
    k_rdelay = n "rdelay"; k_rcount = n "rcount"; k_clean = g "clean" <> "0"; k_will = x "will"; k_wmsg = x "wmsg";
    k_wqos = n "wqos"; k_wretain = g "wretain" <> "0"; k_predef = predef_of_string (g "predef") }

let parse_api (toks : string list) : api =
  let n s = n_of_int (int_of_string s) in
  match toks with
  | ["CONNECT"] -> AConnect
  | ["REGISTER"; t] -> ARegister (bytes_of_hex t)
  | ["SUBSCRIBE"; t; q] -> ASubscribe (bytes_of_hex t, n q)
  | ["SUBPRE"; tid; q] -> ASubPre (n tid, n q)
  | ["PUBLISH"; t; q; r; p] -> APublish (bytes_of_hex t, n q, r <> "0", bytes_of_hex p)
  | ["PUBPRE"; tid; q; r; p] -> APubPre (n tid, n q, r <> "0", bytes_of_hex p)
  | ["UNSUB"; t] -> AUnsub (bytes_of_hex t)
  | ["UNSUBPRE"; tid] -> AUnsubPre (n tid)
  | ["PING"] -> APing
  | ["SLEEP"; ms] -> ASleep (n ms)
  | ["DISCONNECT"] -> ADisconnect
  | ["CLOSE"] -> AClose
  | _ -> failwith ("bad api " ^ String.concat " " toks)

let parse_event (text : string) : cl_event =
  match split_on ' ' text with
  | "CALL" :: id :: rest -> CCall (n_of_int (int_of_string id), parse_api rest)
  | ["GW"; hx] -> CGw (bytes_of_hex hx)
  | ["ADV"; d] -> CAdv (n_of_int (int_of_string d))
  | _ -> failwith ("bad client event " ^ text)

let read_histories (path : string) : chistory list =
  let res = ref [] and cur = ref None in
  List.iter (fun line ->
      if String.length line = 0 || line.[0] = '#' then ()
      else if line.[0] = 'H' then begin
        match split_on ' ' line with
        | "H" :: idx :: rest -> cur := Some { cidx = int_of_string idx; ccfg = parse_cfg rest; chline = line; cevents = [] }
        | _ -> failwith "bad H line" end
      else if line = "END" then begin
        (match !cur with Some hst -> res := { hst with cevents = List.rev hst.cevents } :: !res | None -> ());
        cur := None end
      else if String.length line > 2 && line.[0] = 'E' then begin
        let text = String.sub line 2 (String.length line - 2) in
        match !cur with
        | Some hst -> cur := Some { hst with cevents = (text, parse_event text) :: hst.cevents }
        | None -> failwith "E line outside history" end)
    (read_lines path);
  List.rev !res

let res_name = function
  | ROk -> "ok" | RTimeout -> "err:timeout" | RNoRetries -> "err:noretries" | RRejected -> "err:rejected"
  | RNotRegistered -> "err:notregistered" | RState -> "err:state" | RInvalid -> "err:invalid"
  | RCancelled -> "err:cancelled" | ROther -> "err:other"

(* (time, text) *)
let out_text (o : cl_out) : int * string =
  match o with
  | CoSn (t, dg) -> (i t, "SN " ^ h dg)
  | CoRet (t, id, r) -> (i t, Printf.sprintf "RET %d %s" (i id) (res_name r))
  | CoCb (t, sub, topic, payload, q, r, d, mid) ->
    (i t, Printf.sprintf "CB %d %s %s qos=%d retain=%d dup=%d mid=%d" (i sub) (h topic) (h payload) (i q) (b2i r) (b2i d) (i mid))
  | CoExit t -> (i t, "EXIT")

let run_model (hist : string) (out : string) =
  let hs = read_histories hist in
  let oc = if out = "-" then stdout else open_out out in
  List.iter (fun hst ->
      Printf.fprintf oc "H %d\n" hst.cidx;
      let s = ref cl_init in
      List.iteri (fun k (text, ev) ->
          Printf.fprintf oc "E %d %s\n" k text;
          let (s', outs) = cl_step hst.ccfg !s ev in
          s := s';
          List.iter (fun o -> let (t, x) = out_text o in Printf.fprintf oc "O %d %s\n" t x) outs)
        hst.cevents;
      output_string oc "END\n")
    hs;
  if out <> "-" then close_out oc
