(* gen_cl.ml — model-guided generator of client-library histories (API calls, datagrams from
   a scripted gateway, passing of time).  Same PRNG and same-instant ambiguity rules as
   gen_gw.ml. *)
open Model
open Conv
open Gen_gw   (* rnd, pick, pickw, coin, bs, nn, seed_rng *)

(* incl. filters that differ from "a/b" only by an empty level *)
let names = ["a/b"; "t/1"; "dev/x/data"; "q"; "s/+"; "w/#"; "a/b/c"; "n1"; "n2"; "a/b/"; "/a/b"; "a//b"]
(* what an API caller may pass as a topic: now and then the empty string *)
let api_name () = if rnd 40 = 0 then "" else pick names
let shorts = ["ab"; "xy"]

let payload () : n list =
  let l = pickw [ (6, rnd 6); (2, 0); (2, 20 + rnd 40); (1, 250 + rnd 10) ] in
  List.init l (fun k -> nn ((k * 11 + l) land 255))

let deadlines (s : cl_state) : int list =
  let ts = List.map (fun t -> int_of_n t.ctm_at) s.cl_timers in
  match s.cl_cancelled with Some te -> int_of_n te :: ts | None -> ts

let dup_times (s : cl_state) : bool =
  let sorted = List.sort compare (deadlines s) in
  let rec dup = function a :: (b :: _ as r) -> a = b || dup r | _ -> false in
  dup sorted

type cprofile = { c_user : int; c_sleep : int; c_loss : int; c_unsolicited : int; c_will : int }

let gen_history ?(ka = 0) (idx : int) (prof : cprofile) (oc : out_channel) =
  let user = rnd 100 < prof.c_user in
  let will = rnd 100 < prof.c_will in
  let rdelay = pick [300; 1000; 1500] in
  let rcount = pick [0; 1; 2; 2; 3] in
  let ctimeout = pick [500; 2000; 5000] in
  let predef = Gen_gw.gen_predef () in
  let hx s = hex_of_bytes (bs s) in
  let hline = Printf.sprintf "H %d cid=%s user=%s pass=%s keepalive=%d ctimeout=%d rdelay=%d rcount=%d clean=%d will=%s wmsg=%s wqos=%d wretain=%d predef=%s"
      idx (hx "cl1") (if user then hx "u1" else "-") (hx (if user then "pw" else "")) ka ctimeout rdelay rcount (rnd 2)
      (if will then hx "will/t" else "-") (hx "bye") (rnd 3) (rnd 2) predef in
  let cfg = Cl_io.parse_cfg (List.tl (List.tl (split_on ' ' hline))) in
  output_string oc (hline ^ "\n");
  (* the keep-alive wrapper of the client model (it is cl_step itself when KeepAlive = 0) *)
  let kst = ref ka_init in
  let s = ref cl_init in
  let next_call = ref 1 in
  let kdeadlines (st : ka_state) : int list =
    deadlines st.ka_cl @ (match (if st.ka_done then None else st.ka_next) with Some t -> [int_of_n t] | None -> []) in
  let kdup (st : ka_state) : bool =
    let sorted = List.sort compare (kdeadlines st) in
    let rec dup = function a :: (b :: _ as r) -> a = b || dup r | _ -> false in
    dup sorted in
  let rec ambiguous_advance (st : ka_state) (target : int) (fuel : int) : bool =
    if fuel = 0 then true else
    match List.sort compare (kdeadlines st) with
    | [] -> false
    | m :: rest ->
      if m > target then false
      else if m = target then true
      else if (match rest with m2 :: _ -> m2 = m | [] -> false) then true
      else
        let (st', _) = ka_step cfg st (CAdv (n_of_int (m - int_of_n st.ka_cl.cl_now))) in
        if st'.ka_cl.cl_exited then false else ambiguous_advance st' target (fuel - 1) in
  (* message IDs of exchanges that existed at some point (the gateway may answer late: stale acks) *)
  let recent = ref [] in
  let emit (text : string) : bool =
    List.iter (fun (k, _) -> let k = int_of_n k in if not (List.mem k !recent) then recent := k :: (match !recent with a :: b :: c :: d :: e :: _ -> [a; b; c; d; e] | l -> l))
      (nmap_to_list !s.cl_by_id);
    let ev = Cl_io.parse_event text in
    let amb = (match ev with CAdv d -> ambiguous_advance !kst (int_of_n !s.cl_now + int_of_n d) 300 | _ -> false) in
    if amb then false else begin
      let (k', _) = ka_step cfg !kst ev in
      if kdup k' || (k'.ka_excl && not !kst.ka_excl) then false
      else begin kst := k'; s := k'.ka_cl; output_string oc ("E " ^ text ^ "\n"); true end end in
  let emit_or_skip text = if not (emit text) then (ignore (emit "ADV 1"); ignore (emit text)) in
  let adv_safe d = let rec go d k = if k > 6 then () else if not (emit (Printf.sprintf "ADV %d" d)) then go (d + 1 + rnd 3) (k + 1) in go (max 1 d) 0 in
  let call (a : string) = let id = !next_call in incr next_call; emit_or_skip (Printf.sprintf "CALL %d %s" id a) in
  let gw (p : packet) = emit_or_skip ("GW " ^ hex_of_bytes (pack p)) in
  let objs () = nmap_to_list !s.cl_objs in
  let some_mid () =
    if !recent <> [] && rnd 3 = 0 then pick !recent else
    match nmap_to_list !s.cl_by_id with [] -> (match !recent with [] -> 1 + rnd 5 | l -> pick l) | l -> if rnd 6 = 0 then 1 + rnd 9 else int_of_n (fst (pick l)) in
  let reg_ids () = List.map (fun (_, i) -> int_of_n i) !s.cl_registered in
  let some_tid () = match reg_ids () with [] -> 1 + rnd 4 | l -> if rnd 6 = 0 then 1 + rnd 30 else pick l in
  let next_tid = ref (1 + rnd 3) in
  let fresh_tid () = let t = !next_tid in next_tid := t + 1 + rnd 2; t in
  (* the gateway's answer to a pending transaction *)
  let rec answer (lossy : bool) =
    if !kst.ka_busy <> None && rnd 10 < 7 then begin
      (* the keep-alive ping of the loop is answered (now and then late or not at all) *)
      if rnd 8 = 0 then adv_safe (rdelay + pick [-1; 1]) else gw Pingresp end
    else answer1 lossy
  and answer1 (lossy : bool) =
    match objs () with
    | [] -> ()
    | l ->
      let (_, t) = pick l in
      if lossy && rnd 100 < prof.c_loss then adv_safe (rdelay + pick [-1; 1; 2])     (* the answer is lost *)
      else
        (match t with
         | CxConnect (_, _) -> gw (Connack (nn (pickw [ (8, 0); (1, 1); (1, 3) ])))
         | CxRetry (_, kind, key, st, data, _, _) ->
           (match int_of_n kind with
            | 0 -> gw (Regack (nn (if rnd 8 = 0 then 0 else fresh_tid ()), key, nn (pickw [ (8, 0); (1, 2); (1, 3) ])))
            | 1 -> gw (Suback (nn (rnd 3), nn (match data with Subscribe (_, _, tit, _, _, nm) when int_of_n tit = 0 &&
                                                                  not (List.exists (fun b -> int_of_n b = 43 || int_of_n b = 35) nm) -> fresh_tid () | _ -> 0),
                               key, nn (pickw [ (8, 0); (1, 2); (1, 3) ])))
            | 2 -> gw (Unsuback key)
            | 3 -> gw (Puback (nn (some_tid ()), key, nn (pickw [ (9, 0); (1, 2) ])))
            | 4 -> gw (match st with CtAwaitPubrec -> if rnd 8 = 0 then Pubcomp key else Pubrec key
                                | _ -> if rnd 8 = 0 then Pubrec key else Pubcomp key)
            | 5 -> gw Pingresp
            | _ -> gw (Disconnect (nn 0)))
         | CxSleep (_, st, _, _) ->
           (match st with
            | CtAwaitDisconnect -> gw (Disconnect (nn 0))
            | CtAwaitPingresp -> gw Pingresp
            | _ -> adv_safe (pick [500; 1999; 2001; 3000]))
         | CxBrokerPub2 (mid, _) -> gw (if rnd 6 = 0 then Pubrec mid else Pubrel mid)) in
  (* a broker message on a topic some installed handler matches *)
  let deliver () =
    match !s.cl_handlers with
    | [] -> ()
    | hs ->
      let (_, (route, _)) = pick hs in
      let name = List.map (fun l -> if l = [nn 43] then bs "x" else if l = [nn 35] then bs "y/z" else l) route in
      (* now and then a topic one level deeper than the filter: it matches only through a '#' *)
      let topic = if rnd 6 = 0 then join (name @ [bs "zz"]) else join name in
      let qos = pickw [ (3, 0); (3, 1); (4, 2) ] in
      let mid = 1 + rnd 6 in
      let (tit, tid) =
        if is_short_topic topic then (2, int_of_n (encode_short topic))
        else (match List.find_opt (fun (nm, _) -> nm = topic) !s.cl_registered with
            | Some (_, i) -> (0, int_of_n i)
            | None ->
              (match get_id cfg.k_predef cfg.k_cid topic with
               | Some i -> (1, int_of_n i)
               | None ->
                 (* not known to the client yet: the gateway registers it first *)
                 let t = fresh_tid () in
                 gw (Register (nn t, nn (100 + rnd 50), topic)); (0, t))) in
      gw (Publish (rnd 8 = 0, nn qos, coin (), nn tit, nn tid, nn mid, payload ()));
      if qos = 2 && rnd 5 > 0 then begin
        if rnd 4 = 0 then gw (Publish (true, nn qos, coin (), nn tit, nn tid, nn mid, payload ()));
        gw (Pubrel (nn mid));
        if rnd 4 = 0 then gw (Pubrel (nn mid))
      end in
  let unsolicited () =
    match rnd 12 with
    | 0 | 1 -> gw (Register (nn (fresh_tid ()), nn (1 + rnd 9), bs (pick names)))
    | 2 | 3 | 4 ->
      let tit = pickw [ (5, 0); (2, 1); (2, 2); (1, 3) ] in
      let tid = (match tit with 0 -> some_tid () | 1 -> pick [1; 2; 3; 5; 9] | 2 -> int_of_n (encode_short (bs (pick shorts))) | _ -> rnd 100) in
      gw (Publish (rnd 8 = 0, nn (pickw [ (4, 0); (4, 1); (4, 2); (1, 3) ]), coin (), nn tit, nn tid, nn (1 + rnd 6), payload ()))
    | 5 -> gw (Pubrel (nn (some_mid ())))
    | 6 -> gw (pick [WillTopicReq; WillMsgReq])
    | 7 -> gw (pick [Puback (nn 1, nn (some_mid ()), nn 0); Pubrec (nn (some_mid ())); Pubcomp (nn (some_mid ()));
                     Regack (nn (fresh_tid ()), nn (some_mid ()), nn 0); Suback (nn 0, nn (fresh_tid ()), nn (some_mid ()), nn 0); Unsuback (nn (some_mid ())); Pingresp;
                     Connack (nn 0)])
    | 8 -> gw (Disconnect (nn 0))
    | 9 -> emit_or_skip ("GW " ^ hex_of_bytes (List.init (rnd 5) (fun _ -> nn (rnd 256))))
    | 10 -> gw (pick [Advertise (nn 1, nn 2); SearchGw (nn 1); Subscribe (false, nn 0, nn 0, nn 1, nn 0, bs "x"); Pingreq []; Connect (false, true, nn 1, nn 10, bs "x")])
    | _ -> gw (Regack (nn (fresh_tid ()), nn (1 + rnd 9), nn 0)) in
  let api_call () =
    let connected = (!s.cl_st = Active) in
    let choice =
      if not connected && !s.cl_st = Disconnected then
        pickw [ (70, `Connect); (4, `Register); (4, `Publish); (3, `Sleep); (3, `Disconnect); (3, `Ping); (2, `Close) ]
      else if !s.cl_st = Awake || !s.cl_st = Asleep then
        pickw [ (30, `Sleep); (10, `Connect); (10, `Disconnect); (10, `Publish); (5, `Ping); (3, `Close) ]
      else
        pickw [ (16, `Register); (22, `Publish); (14, `Subscribe); (6, `Unsub); (6, `Ping); (prof.c_sleep, `Sleep);
                (4, `Disconnect); (2, `Close); (2, `Connect); (6, `PubPre); (4, `SubPre); (5, `SubSibling) ] in
    match choice with
    | `Connect -> call "CONNECT"
    | `Register -> call ("REGISTER " ^ hx (api_name ()))
    | `Publish ->
      let t = (match rnd 5 with 0 -> pick shorts | 1 -> pick names
                                | _ -> (match !s.cl_registered with [] -> pick names | l -> let (nm, _) = pick l in String.concat "" (List.map (fun x -> String.make 1 (Char.chr (int_of_n x))) nm))) in
      call (Printf.sprintf "PUBLISH %s %d %d %s" (hx t) (pickw [ (3, 0); (4, 1); (4, 2); (1, 3); (1, 4) ]) (rnd 2) (hex_of_bytes (payload ())))
    | `PubPre -> call (Printf.sprintf "PUBPRE %d %d %d %s" (pick [1; 2; 3; 9]) (rnd 3) (rnd 2) (hex_of_bytes (payload ())))
    | `Subscribe -> call (Printf.sprintf "SUBSCRIBE %s %d" (hx (if rnd 5 = 0 then pick shorts else api_name ())) (rnd 3))
    | `SubPre -> call (Printf.sprintf "SUBPRE %d %d" (pick [1; 2; 3; 9]) (rnd 3))
    | `SubSibling ->
      (* a filter that differs from one already subscribed only by an empty topic level: a distinct filter *)
      (match List.filter (fun (_, (route, _)) -> not (List.exists (fun l -> l = [nn 43] || l = [nn 35]) route)) !s.cl_handlers with
       | [] -> call (Printf.sprintf "SUBSCRIBE %s %d" (hx (pick names)) (rnd 3))
       | hs ->
         let (_, (route, _)) = pick hs in
         let name = join route in
         let sib = (match rnd 3 with 0 -> name @ [nn 47] | 1 -> nn 47 :: name | _ -> name @ [nn 47; nn 47; nn 120]) in
         call (Printf.sprintf "SUBSCRIBE %s %d" (hex_of_bytes sib) (rnd 3)))
    | `Unsub -> call (if rnd 4 = 0 then Printf.sprintf "UNSUBPRE %d" (pick [1; 2; 9]) else "UNSUB " ^ hx (if rnd 5 = 0 then pick shorts else api_name ()))
    | `Ping -> call "PING"
    | `Sleep -> call (Printf.sprintf "SLEEP %d" (pick [1000; 2000; 3500]))
    | `Disconnect -> call "DISCONNECT"
    | `Close -> call "CLOSE" in
  let len = 4 + rnd 30 in
  let k = ref 0 in
  while !k < len && not !s.cl_exited do
    if rnd 3 > 0 then adv_safe (pickw [ (5, 1 + rnd 40); (2, 101 + rnd 300); (1, 7 + 100 * rnd 9) ]);
    if not !s.cl_exited && !s.cl_cancelled = None then begin
      (match pickw [ (30, `Api); (40, `Answer); (prof.c_unsolicited, `Unsol); (8, `Adv); (6, `Edge); (14, `Deliver) ] with
       | `Api -> api_call ()
       | `Deliver -> deliver ()
       | `Answer -> answer true
       | `Unsol -> unsolicited ()
       | `Adv -> adv_safe (pick ([rdelay - 1; rdelay + 1; 2 * rdelay + 3; ctimeout + 1; 50] @
                                 (if ka > 0 then [ka * 1000 - 1; ka * 1000 + 1; ka * 1000 + 1; 2 * ka * 1000 + 7; ka * 500] else [])))
       | `Edge -> (match kdeadlines !kst with
           | [] -> adv_safe (1 + rnd 50)
           | l -> adv_safe (max 1 (pick l - int_of_n !s.cl_now + pick [-1; 1; 1; 50]))))
    end else adv_safe (pick [500; 1001; 2000]);
    incr k
  done;
  if not !s.cl_exited && !s.cl_cancelled <> None then adv_safe 1001;
  output_string oc "END\n"

let profiles = [|
  { c_user = 0; c_sleep = 3; c_loss = 10; c_unsolicited = 12; c_will = 10 };
  { c_user = 100; c_sleep = 2; c_loss = 40; c_unsolicited = 6; c_will = 60 };
  { c_user = 20; c_sleep = 25; c_loss = 15; c_unsolicited = 10; c_will = 0 };
  { c_user = 10; c_sleep = 3; c_loss = 5; c_unsolicited = 35; c_will = 0 };
|]

let run (seed : int) (n : int) (out : string) =
  seed_rng seed;
  let oc = if out = "-" then stdout else open_out out in
  for idx = 0 to n - 1 do
    gen_history idx profiles.(idx mod Array.length profiles) oc
  done;
  if out <> "-" then close_out oc

(* histories with the keep-alive loop running (C33): the same walks with KeepAlive of 1-3 s and a
   gateway that answers the loop's pings most of the time; sleep cycles are frequent *)
let ka_profiles = [|
  { c_user = 0; c_sleep = 14; c_loss = 8; c_unsolicited = 4; c_will = 0 };
  { c_user = 0; c_sleep = 30; c_loss = 15; c_unsolicited = 3; c_will = 0 };
  { c_user = 30; c_sleep = 6; c_loss = 5; c_unsolicited = 8; c_will = 20 };
|]

let run_ka (seed : int) (n : int) (out : string) =
  seed_rng seed;
  let oc = if out = "-" then stdout else open_out out in
  for idx = 0 to n - 1 do
    gen_history ~ka:(pick [1; 2; 2; 3]) idx ka_profiles.(idx mod Array.length ka_profiles) oc
  done;
  if out <> "-" then close_out oc
