(* chk_topics.ml — compare drv_topics observations with the model (correspondence)
   and apply the C05 statement to the implementation's own answers (property). *)
open Model
open Conv

(* returns (lines, mismatches, violations) and prints one line per problem *)
let run (path : string) =
  let lines = read_lines path in
  let total = ref 0 and mism = ref 0 and viol = ref 0 in
  let distinct = Hashtbl.create 1024 and nsamples = ref 0 in
  let note line res =
    if res <> "-" && not (Hashtbl.mem distinct line) then begin
      Hashtbl.replace distinct line ();
      if !nsamples < 4 && Hashtbl.length distinct mod 97 = 1 then begin
        incr nsamples; Printf.printf "SAMPLE %s\n" line end
    end in
  let cache = Hashtbl.create 64 in
  let cfg_of s = match Hashtbl.find_opt cache s with
    | Some c -> c | None -> let c = predef_of_string s in Hashtbl.replace cache s c; c in
  List.iter (fun line ->
      match split_on ' ' line with
      | ["T"; cfgs; cl; "N"; id; res] ->
        incr total; note line res;
        let cfg = cfg_of cfgs in
        let m = opt_hex (get_name cfg (bytes_of_hex cl) (n_of_int (int_of_string id))) in
        if m <> res then begin
          incr mism; Printf.printf "MISMATCH GetTopicName model=%s impl=%s :: %s\n" m res line end
      | ["T"; cfgs; cl; "I"; name; res; back] ->
        incr total; note line res;
        let cfg = cfg_of cfgs in
        let ids = List.map int_of_n (get_ids cfg (bytes_of_hex cl) (bytes_of_hex name)) in
        let ok = if res = "-" then ids = [] else List.mem (int_of_string res) ids in
        if not ok then begin
          incr mism;
          Printf.printf "MISMATCH GetTopicID model={%s} impl=%s :: %s\n"
            (String.concat "," (List.map string_of_int ids)) res line end;
        (* C05 on the implementation's own answers: the returned ID reads back as the name *)
        if res <> "-" && back <> name then begin
          incr viol; Printf.printf "FAIL C05 id-reads-back-as-name :: %s\n" line end
      | ["O"; files; opts; res] ->
        (* the mapping a tool builds: file, options merged over it (tool_cfg) *)
        incr total; note line res;
        let canon (p : predef) =
          List.sort compare (List.map (fun (c, m) -> (hex_of_bytes c, List.sort compare (List.map (fun (i, n) -> (int_of_n i, hex_of_bytes n)) (nmap_to_list m)))) p) in
        let optl = if opts = "-" then [] else List.map bytes_of_hex (split_on '|' opts) in
        let m = tool_cfg TGateway (FileOk (cfg_of files)) optl in
        let same = (match m with
            | None -> res = "ERR"
            | Some p -> res <> "ERR" && canon p = canon (cfg_of res)) in
        if not same then begin
          incr mism; incr viol;
          Printf.printf "MISMATCH tool mapping model=%s :: %s\n" (match m with None -> "ERR" | Some _ -> "ok") line;
          Printf.printf "FAIL C30 options-over-file-mapping :: %s\n" line end
      | "X" :: _ -> incr mism; Printf.printf "MISMATCH driver-error :: %s\n" line
      | _ -> ())
    lines;
  Printf.printf "STAT evaluations=%d nontrivial=%d\n" !total (Hashtbl.length distinct);
  Printf.printf "SUMMARY topics lines=%d mismatches=%d failures=%d\n" !total !mism !viol
