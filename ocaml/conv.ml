(* conv.ml — glue between the extracted model (inductive N/positive, byte lists)
   and the text formats shared with the Go drivers.  Hand-written, trusted. *)
open Model

let rec pos_of_int (i : int) : positive =
  if i = 1 then XH
  else if i land 1 = 0 then XO (pos_of_int (i lsr 1))
  else XI (pos_of_int (i lsr 1))

let n_of_int (i : int) : n = if i = 0 then N0 else Npos (pos_of_int i)

let rec int_of_pos (p : positive) : int =
  match p with XH -> 1 | XO q -> 2 * int_of_pos q | XI q -> 2 * int_of_pos q + 1

let int_of_n (x : n) : int = match x with N0 -> 0 | Npos p -> int_of_pos p

let hexdig = "0123456789abcdef"

let hex_of_bytes (b : n list) : string =
  let buf = Buffer.create (1 + 2 * List.length b) in
  Buffer.add_char buf 'x';
  List.iter (fun x ->
      let v = int_of_n x in
      Buffer.add_char buf hexdig.[(v lsr 4) land 15];
      Buffer.add_char buf hexdig.[v land 15]) b;
  Buffer.contents buf

let hv c =
  match c with
  | '0' .. '9' -> Char.code c - 48
  | 'a' .. 'f' -> Char.code c - 87
  | 'A' .. 'F' -> Char.code c - 55
  | _ -> failwith "bad hex digit"

let bytes_of_hex (s : string) : n list =
  if String.length s = 0 || s.[0] <> 'x' then failwith ("bad hex token " ^ s);
  let l = (String.length s - 1) / 2 in
  List.init l (fun i -> n_of_int (hv s.[1 + 2 * i] * 16 + hv s.[2 + 2 * i]))

let opt_hex = function None -> "-" | Some b -> hex_of_bytes b
let opt_n = function None -> "-" | Some i -> string_of_int (int_of_n i)

let split_on c s = String.split_on_char c s

(* client:id=name,...;client:...   or "~" *)
let predef_of_string (s : string) : predef =
  if s = "~" then []
  else
    List.map (fun part ->
        match split_on ':' part with
        | [c; es] ->
          let m =
            if es = "" then nmap_empty
            else
              List.fold_left (fun m e ->
                  match split_on '=' e with
                  | [i; nm] ->
                    (* "lo-hi=name": the same name for a whole range of IDs *)
                    (match split_on '-' i with
                     | [lo; hi] ->
                       let nb = bytes_of_hex nm in
                       let r = ref m in
                       for k = int_of_string lo to int_of_string hi do r := nmap_insert (n_of_int k) nb !r done; !r
                     | _ -> nmap_insert (n_of_int (int_of_string i)) (bytes_of_hex nm) m)
                  | _ -> failwith ("bad predef entry " ^ e))
                nmap_empty (split_on ',' es)
          in
          (bytes_of_hex c, m)
        | _ -> failwith ("bad predef part " ^ part))
      (split_on ';' s)

let read_lines (path : string) : string list =
  let ic = if path = "-" then stdin else open_in path in
  let rec go acc = match input_line ic with l -> go (l :: acc) | exception End_of_file -> List.rev acc in
  let r = go [] in
  if path <> "-" then close_in ic;
  r
