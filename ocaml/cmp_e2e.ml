(* cmp_e2e.ml — end-to-end correspondence: the composed model (client model + link + gateway model +
   specification broker) against the real Client and the real gateway session joined by the same
   lossy link and the same broker script (drv_e2e); the extracted C16 / C26 checkers run on the
   implementation's trace.

   Per event the observations are compared channel by channel: the datagrams of each link
   direction, what the broker received and what it sent are sequences (order matters within a
   channel), API returns, handler invocations and terminations are compared as sets of the
   instant.  (Across channels the order within one virtual instant depends on goroutine
   scheduling and carries no meaning.) *)
open Model
open Conv

type line = { t : int; text : string }

let parse_impl (path : string) =
  let tbl = Hashtbl.create 256 in
  let cur = ref None in
  let flush_cur () = match !cur with
    | Some (idx, evs, xs) -> Hashtbl.replace tbl idx (List.rev_map (fun (e, os) -> (e, List.rev os)) evs, List.rev xs)
    | None -> () in
  List.iter (fun l ->
      match split_on ' ' l with
      | ["H"; idx] -> flush_cur (); cur := Some (int_of_string idx, [], [])
      | "E" :: _ :: rest -> (match !cur with Some (i, evs, xs) -> cur := Some (i, (String.concat " " rest, []) :: evs, xs) | None -> ())
      | "O" :: t :: rest ->
        (match !cur with
         | Some (i, (e, os) :: evs, xs) -> cur := Some (i, (e, { t = int_of_string t; text = String.concat " " rest } :: os) :: evs, xs)
         | _ -> ())
      | "X" :: rest -> (match !cur with Some (i, evs, xs) -> cur := Some (i, evs, String.concat " " rest :: xs) | None -> ())
      | _ -> ())
    (read_lines path);
  flush_cur ();
  tbl

let tag (l : line) = match split_on ' ' l.text with k :: _ -> k | [] -> "?"
(* which of several matching handlers runs depends on Go's map iteration order: handler invocations are
   compared without the subscription id (C27 checks the id against the matching set) *)
let strip_sub (l : line) : line =
  match split_on ' ' l.text with
  | "CB" :: _ :: rest -> { l with text = String.concat " " ("CB" :: "-" :: rest) }
  | _ -> l
let chan (k : string) (ls : line list) = List.filter (fun l -> tag l = k) ls
let show (l : line) = Printf.sprintf "%d %s" l.t l.text
let clip s = if String.length s > 500 then String.sub s 0 500 ^ "..." else s

let run (hist : string) (impl : string) =
  let hs = E2e_io.read_histories hist in
  let itbl = parse_impl impl in
  let nh = ref 0 and nev = ref 0 and nout = ref 0 and ndiv = ref 0 and nfail = ref 0 in
  let kinds = Hashtbl.create 32 in
  let nontriv = Hashtbl.create 1024 in
  List.iter (fun (hst : E2e_io.ehistory) ->
      incr nh;
      let diverged = ref false in
      let mismatch kind k detail =
        if not !diverged then begin diverged := true; incr ndiv;
          Printf.printf "MISMATCH %s h=%d e=%d :: %s\n" kind hst.eidx k (clip detail) end in
      let fail prop clause k detail = incr nfail; Printf.printf "FAIL %s %s h=%d e=%d :: %s\n" prop clause hst.eidx k (clip detail) in
      match (try Some (Hashtbl.find itbl hst.eidx) with Not_found -> None) with
      | None -> mismatch "MISSING-HISTORY" 0 "history absent from the implementation trace"
      | Some (ievs, xs) ->
        List.iter (fun x ->
            let w = (match split_on ' ' x with w :: _ -> w | [] -> "?") in
            mismatch w 0 x;
            if w = "PANIC" then fail "C25" "e2e-panics" 0 x;
            if w = "LEAK" then (fail "C28" "goroutine-leak-or-hang" 0 x)) xs;
        let y = ref (sys_init hst.ecfg) in
        let has_dup = List.exists (fun f -> f = FDup) (hst.ecfg.e_c2g @ hst.ecfg.e_g2c) in
        let mon = ref Chk_e2e.hinit in
        let ievs = Array.of_list ievs in
        let mends = ref [] and iends = ref [] in
        List.iteri (fun k (text, ev) ->
            incr nev;
            let (y', outs) = sys_step hst.ecfg !y ev in
            let m = List.concat_map (fun o -> List.map (fun (t, x) -> { t; text = x }) (E2e_io.out_text o)) outs in
            let i = if k < Array.length ievs then snd ievs.(k) else [] in
            if k >= Array.length ievs then mismatch "MISSING-EVENT" k ("event not executed by the implementation: " ^ text);
            nout := !nout + List.length i;
            List.iter (fun l -> let kd = tag l in Hashtbl.replace kinds kd (1 + (try Hashtbl.find kinds kd with Not_found -> 0))) i;
            if i <> [] then Hashtbl.replace nontriv (hst.ehline ^ text ^ String.concat "|" (List.map show i)) ();
            (* property checkers on the implementation's observations *)
            let (fails, mon') = Chk_e2e.step hst.ecfg !y y' ev (List.map (fun (l : line) -> (l.t, l.text)) i) outs !mon in
            mon := mon';
            List.iter (fun (p, c) -> fail p c k (Printf.sprintf "event=%s impl=[%s]" text (String.concat "; " (List.map show i)))) fails;
            (* correspondence, channel by channel *)
            List.iter (fun c ->
                let a = chan c m and b = chan c i in
                (* a duplicated datagram puts two chains of reactions in flight at one virtual instant: which of
                   them writes first is up to the Go scheduler (the model's work list is FIFO).  In histories with
                   a duplication fault the packets of one instant on one channel are compared as a multiset *)
                let (a, b) = if has_dup then (List.stable_sort (fun (x : line) z -> compare (x.t, x.text) (z.t, z.text)) a,
                                              List.stable_sort (fun (x : line) z -> compare (x.t, x.text) (z.t, z.text)) b) else (a, b) in
                let rec cmp a b =
                  match a, b with
                  | [], [] -> ()
                  | x :: a', z :: b' -> if x = z then cmp a' b' else
                      mismatch (c ^ (if x.text = z.text then ":TIME" else "")) k (Printf.sprintf "model=[%s] impl=[%s] event=%s" (show x) (show z) text)
                  | x :: _, [] -> mismatch ("MISSING " ^ c) k (Printf.sprintf "model=[%s] impl=nothing event=%s" (show x) text)
                  | [], z :: _ -> mismatch ("EXTRA " ^ c) k (Printf.sprintf "model=nothing impl=[%s] event=%s" (show z) text) in
                cmp a b) ["C2G"; "G2C"; "BR"; "BS"];
            List.iter (fun c ->
                let a = List.sort compare (List.map strip_sub (chan c m)) and b = List.sort compare (List.map strip_sub (chan c i)) in
                (* a call interrupted by the termination of the client returns whatever terminated it *)
                let eqr (x : line) (z : line) =
                  x = z || (x.t = z.t &&
                            (match split_on ' ' x.text, split_on ' ' z.text with
                             | ["RET"; i1; "err:cancelled"], ["RET"; i2; r] -> i1 = i2 && String.length r >= 4 && String.sub r 0 4 = "err:"
                             | _ -> false)) in
                if not (List.length a = List.length b && List.for_all2 eqr a b) then mismatch c k (Printf.sprintf "model=[%s] impl=[%s] event=%s"
                                               (String.concat "; " (List.map show a)) (String.concat "; " (List.map show b)) text))
              ["RET"; "CB"];
            (* termination of the gateway session after the broker closed the connection is immediate in
               the implementation (EOF) and at the next poll tick in the model: C13 compares end times on
               single sessions; here only the fact is compared, at the end of the history *)
            List.iter (fun (l : line) -> if List.mem (tag l) ["EXIT"; "GWEND"] then mends := tag l :: !mends) m;
            List.iter (fun (l : line) -> if List.mem (tag l) ["EXIT"; "GWEND"] then iends := tag l :: !iends) i;
            y := y')
          hst.eevents;
        if List.sort compare !mends <> List.sort compare !iends then
          mismatch "TERMINATION" (List.length hst.eevents)
            (Printf.sprintf "model=[%s] impl=[%s]" (String.concat "," (List.sort compare !mends)) (String.concat "," (List.sort compare !iends))))
    hs;
  let ks = Hashtbl.fold (fun k v acc -> (k, v) :: acc) kinds [] |> List.sort compare in
  Printf.printf "STAT evaluations=%d nontrivial=%d histories=%d outputs=%d\n" !nev (Hashtbl.length nontriv) !nh !nout;
  Printf.printf "SUMMARY e2e histories=%d events=%d outputs=%d diverging=%d failures=%d kinds=%s\n" !nh !nev !nout !ndiv !nfail
    (String.concat "," (List.map (fun (k, v) -> k ^ ":" ^ string_of_int v) ks))
