(* ext.ml — directed search after a broken correspondence: when model and implementation
   diverge at event e of a history but no property checker has failed yet, the divergence itself
   is not a violation.  This stage extends every diverging prefix (events 0..e) with a family of
   continuations aimed at turning a difference in internal state into an observable property
   failure: for every message ID that occurs in the prefix and every kind of acknowledgement, the
   acknowledgement arrives after each of a set of delays placed around the retry deadlines, then
   time passes until every budget has expired.  The extended histories are run on the
   implementation and through the same comparator + checkers. *)
open Model
open Conv

let nn = n_of_int

(* (index, H line, event lines) of every history of a file *)
let read_raw (path : string) : (int * string * string list) list =
  let res = ref [] and cur = ref None in
  List.iter (fun line ->
      if String.length line > 1 && line.[0] = 'H' then
        cur := Some (int_of_string (List.nth (split_on ' ' line) 1), line, [])
      else if line = "END" then begin
        (match !cur with Some (i, h, evs) -> res := (i, h, List.rev evs) :: !res | None -> ()); cur := None end
      else if String.length line > 2 && line.[0] = 'E' then
        (match !cur with Some (i, h, evs) -> cur := Some (i, h, line :: evs) | None -> ()))
    (read_lines path);
  List.rev !res

(* first divergence of each history: history index -> event index *)
let divergences (res : string) : (int * int) list =
  let tbl = Hashtbl.create 64 in
  List.iter (fun line ->
      if String.length line > 9 && String.sub line 0 9 = "MISMATCH " then begin
        let toks = split_on ' ' line in
        let get p = List.find_opt (fun t -> String.length t > 2 && String.sub t 0 2 = p) toks in
        match get "h=", get "e=" with
        | Some h, Some e ->
          let h = int_of_string (String.sub h 2 (String.length h - 2)) and e = int_of_string (String.sub e 2 (String.length e - 2)) in
          if not (Hashtbl.mem tbl h) then Hashtbl.replace tbl h e
        | _ -> () end)
    (read_lines res);
  Hashtbl.fold (fun h e acc -> (h, e) :: acc) tbl [] |> List.sort compare

let rec take n l = if n <= 0 then [] else match l with [] -> [] | x :: r -> x :: take (n - 1) r

let uniq l = List.sort_uniq compare l

(* message IDs in the datagrams of a list of event lines ("E GW <hex>" / "E SN <hex>") *)
let mids_of (evs : string list) : int list =
  uniq (List.concat_map (fun line ->
      match split_on ' ' line with
      | ["E"; ("GW" | "SN"); hx] ->
        (match read_dgram (bytes_of_hex hx) with
         | Ok (Publish (_, _, _, _, _, m, _)) | Ok (Puback (_, m, _)) | Ok (Pubrec m) | Ok (Pubrel m) | Ok (Pubcomp m)
         | Ok (Regack (_, m, _)) | Ok (Suback (_, _, m, _)) | Ok (Unsuback m) | Ok (Register (_, m, _))
         | Ok (Subscribe (_, _, _, m, _, _)) | Ok (Unsubscribe (_, m, _, _)) -> [int_of_n m]
         | _ -> [])
      | _ -> []) evs)

let delays (rdelay : int) (rcount : int) : int list =
  uniq [3; rdelay / 2; rdelay - 1; rdelay + 1; 2 * rdelay + 1; (rcount + 1) * rdelay - 1; (rcount + 1) * rdelay + 1;
        (rcount + 2) * rdelay + 3]

let kv line k = Hashtbl.find (Gw_io.kv_tbl (split_on ' ' line)) k

(* client histories: the scripted gateway answers late / again *)
let ext_cl (hist : string) (res : string) (out : string) =
  let hs = read_raw hist in
  let divs = take 40 (divergences res) in
  let oc = open_out out in
  let idx = ref 2000000 in
  List.iter (fun (h, e) ->
      match List.find_opt (fun (i, _, _) -> i = h) hs with
      | None -> ()
      | Some (_, hline, evs) ->
        let prefix = take (e + 1) evs in
        let rdelay = int_of_string (kv hline "rdelay") and rcount = int_of_string (kv hline "rcount") in
        let hrest = String.concat " " (List.tl (List.tl (split_on ' ' hline))) in
        (* also the IDs of what the client itself sent: 1 .. number of calls so far *)
        let ncalls = List.length (List.filter (fun l -> String.length l > 6 && String.sub l 0 6 = "E CALL") prefix) in
        let mids = uniq (mids_of prefix @ List.init (min 6 ncalls) (fun k -> k + 1)) in
        (* plain silence, long enough for every bound of a blocking call (retry budgets, the connect timeout, a sleep
           and the 60 s the wake-up waits for its PINGRESP): a call that should have returned by then and has not (C28) *)
        incr idx;
        Printf.fprintf oc "H %d %s\n" !idx hrest;
        List.iter (fun l -> output_string oc (l ^ "\n")) prefix;
        Printf.fprintf oc "E ADV %d\n" (max ((rcount + 2) * rdelay + 1507) 5407);
        for k = 1 to 11 do Printf.fprintf oc "E ADV %d\n" (8009 + k) done;
        output_string oc "END\n";
        List.iter (fun mid ->
            List.iter (fun (ack : packet) ->
                List.iter (fun d ->
                    incr idx;
                    Printf.fprintf oc "H %d %s\n" !idx hrest;
                    List.iter (fun l -> output_string oc (l ^ "\n")) prefix;
                    Printf.fprintf oc "E ADV %d\nE GW %s\nE ADV %d\nEND\n" d (hex_of_bytes (pack ack)) ((rcount + 2) * rdelay + 1507))
                  (delays rdelay rcount);
                (* the same acknowledgement twice, each time just before the budget of the last progress runs
                   out: an exchange that lets a repeated acknowledgement restart its retries outlives the bound
                   of the call (C28) *)
                let late = [rdelay - 1; (rcount + 1) * rdelay - 1] in
                List.iter (fun d1 -> List.iter (fun d2 ->
                    incr idx;
                    Printf.fprintf oc "H %d %s\n" !idx hrest;
                    List.iter (fun l -> output_string oc (l ^ "\n")) prefix;
                    Printf.fprintf oc "E ADV %d\nE GW %s\nE ADV %d\nE GW %s\nE ADV %d\nEND\n" d1 (hex_of_bytes (pack ack)) d2
                      (hex_of_bytes (pack ack)) (2 * (rcount + 2) * rdelay + 1507)) late) late)
              [Puback (nn 1, nn mid, nn 0); Pubrec (nn mid); Pubcomp (nn mid); Pubrel (nn mid); Regack (nn 7, nn mid, nn 0);
               Suback (nn 0, nn 7, nn mid, nn 0); Unsuback (nn mid)])
          mids)
    divs;
  close_out oc

(* gateway histories: the client / the broker answers late / again *)
let ext_gw (hist : string) (res : string) (out : string) =
  let hs = read_raw hist in
  let divs = take 40 (divergences res) in
  let oc = open_out out in
  let idx = ref 2000000 in
  List.iter (fun (h, e) ->
      match List.find_opt (fun (i, _, _) -> i = h) hs with
      | None -> ()
      | Some (_, hline, evs) ->
        let prefix = take (e + 1) evs in
        let rdelay = int_of_string (kv hline "rdelay") and rcount = int_of_string (kv hline "rcount") in
        let hrest = String.concat " " (List.tl (List.tl (split_on ' ' hline))) in
        let mqmids = uniq (List.concat_map (fun line ->
            match split_on ' ' line with
            | "E" :: "MQ" :: rest -> (try [int_of_string (Hashtbl.find (Gw_io.kv_tbl rest) "mid")] with Not_found -> [])
            | _ -> []) prefix) in
        let mids = uniq (mids_of prefix @ mqmids) in
        (* plain silence: longer than the connect timeout and every retry budget (a session that should have
           ended by then and has not, C10 / C13 / C34) *)
        incr idx;
        Printf.fprintf oc "H %d %s\n" !idx hrest;
        List.iter (fun l -> output_string oc (l ^ "\n")) prefix;
        Printf.fprintf oc "E ADV %d\nEND\n" (max ((rcount + 2) * rdelay + 207) 5407);
        List.iter (fun mid ->
            List.iter (fun (ev : string) ->
                List.iter (fun d ->
                    incr idx;
                    Printf.fprintf oc "H %d %s\n" !idx hrest;
                    List.iter (fun l -> output_string oc (l ^ "\n")) prefix;
                    Printf.fprintf oc "E ADV %d\nE %s\nE ADV %d\nEND\n" d ev (max ((rcount + 2) * rdelay + 207) 5407))
                  (delays rdelay rcount))
              (List.map (fun p -> "SN " ^ hex_of_bytes (pack p))
                 [Puback (nn 1, nn mid, nn 0); Pubrec (nn mid); Pubcomp (nn mid); Pubrel (nn mid); Regack (nn 1, nn mid, nn 0)] @
               List.map (fun m -> "MQ " ^ Gw_io.mq_spec m)
                 [MqPuback (nn mid); MqPubrec (nn mid); MqPubcomp (nn mid); MqPubrel (nn mid); MqSuback (nn mid, [nn 1]); MqUnsuback (nn mid)]))
          mids)
    divs;
  close_out oc
