(* gen_gw.ml — model-guided generator of gateway session histories.
   One splitmix64 state drives every choice; the extracted model is stepped alongside so
   that events refer to live message IDs / topic IDs / armed timers, and so that histories
   with two timers (or a timer and an injected event) at the same virtual instant, whose
   order the Go runtime does not define, are not produced. *)
open Model
open Conv

(* ---- PRNG (splitmix64 on OCaml's 63-bit ints via Int64) *)
let st = ref 0L
let seed_rng (s : int) = st := Int64.add (Int64.mul (Int64.of_int s) 0x9E3779B97F4A7C15L) 0x1234567L
let u64 () =
  st := Int64.add !st 0x9E3779B97F4A7C15L;
  let z = !st in
  let z = Int64.mul (Int64.logxor z (Int64.shift_right_logical z 30)) 0xBF58476D1CE4E5B9L in
  let z = Int64.mul (Int64.logxor z (Int64.shift_right_logical z 27)) 0x94D049BB133111EBL in
  Int64.logxor z (Int64.shift_right_logical z 31)
let rnd (n : int) : int = if n <= 0 then 0 else Int64.to_int (Int64.unsigned_rem (u64 ()) (Int64.of_int n))
let coin () = rnd 2 = 0
let pick (l : 'a list) : 'a = List.nth l (rnd (List.length l))
let pickw (l : (int * 'a) list) : 'a =
  let tot = List.fold_left (fun a (w, _) -> a + w) 0 l in
  let r = ref (rnd tot) in
  let res = ref (snd (List.hd l)) and fin = ref false in
  List.iter (fun (w, x) -> if not !fin then (if !r < w then (res := x; fin := true) else r := !r - w)) l;
  !res

let bytes_of_string (s : string) : n list = List.init (String.length s) (fun k -> n_of_int (Char.code s.[k]))
let bs = bytes_of_string
let nn = n_of_int

(* ---- pools *)
(* incl. two names of two CHARACTERS but more than two octets (a short topic name is two OCTETS) *)
let names = ["a/b"; "t/1"; "dev/x/data"; "q"; "long/topic/name/with/levels"; "s/+"; "w/#"; "a/b/c"; "n1"; "n2"; "n3";
             "\xc5\xbe\xc5\xbe"; "a\xc3\xa9"]
(* names that the generated configurations predefine for some or all clients *)
let pnames = ["p/1"; "p/2"; "p/any"; "pq"; "p/3"]
let shorts = ["ab"; "xy"; "+a"]
let clients = ["cl1"; "cl2"]

let payload () : n list =
  (* now and then a payload whose datagram would exceed 65535 bytes (sizes that wrap 16-bit arithmetic) *)
  let l = if rnd 400 = 0 then pick [65529; 65536; 70000; 73000]
    else pickw [ (12, rnd 6); (4, 0); (4, 20 + rnd 40); (2, 250 + rnd 10); (2, 7168);
                 (1, pick [8182; 8183; 8184; 8186; 9000]) (* around the 8192-byte datagram limit *) ] in
  List.init l (fun k -> nn ((k * 7 + l) land 255))

let gen_predef () : string =
  (* overlapping client-specific / "*" entries over IDs 1..6 *)
  match rnd 5 with
  | 0 -> "~"
  | _ ->
    let ent c =
      let ids = List.filter (fun _ -> rnd 3 > 0) [1; 2; 3; 5; 6] in
      if ids = [] then None else
        Some (hex_of_bytes (bs c) ^ ":" ^
              String.concat "," (List.map (fun id ->
                  string_of_int id ^ "=" ^ hex_of_bytes (bs (pick ["p/1"; "p/2"; "p/any"; "pq"; "p/3"]))) ids)) in
    let l = List.filter_map (fun x -> x) [ (if rnd 3 > 0 then ent "*" else None); (if coin () then ent "cl1" else None);
                                           (if rnd 4 = 0 then ent "cl2" else None) ] in
    if l = [] then "~" else String.concat ";" (List.sort compare l)

(* ---- event texts *)
let ev_sn (p : packet) : string = "SN " ^ hex_of_bytes (pack p)
let ev_raw (b : n list) : string = "SN " ^ hex_of_bytes b
let ev_mq (m : mq_pkt) : string = "MQ " ^ Gw_io.mq_spec m

let keys (m : 'a nmap) : int list = List.map (fun (k, _) -> int_of_n k) (nmap_to_list m)

let dup_times (s : gw_state) : bool =
  let ts = List.map (fun t -> int_of_n t.tm_at) s.gw_timers in
  let ts = match s.gw_ending with Some te -> int_of_n te :: ts | None -> ts in
  let sorted = List.sort compare ts in
  let rec dup = function a :: (b :: _ as r) -> a = b || dup r | _ -> false in
  dup sorted

let deadlines (s : gw_state) : int list =
  let ts = List.map (fun t -> int_of_n t.tm_at) s.gw_timers in
  match s.gw_ending with Some te -> int_of_n te :: ts | None -> ts

(* outputs of one step: are two of them at the same instant but from different firings? *)
let out_time = function OutSn (t, _) | OutMq (t, _) | OutCancel (t, _) | OutEnd t -> int_of_n t

type profile = { p_auth : int; p_sleep : int; p_broker_pub : int; p_preconnect : int; p_will : int; p_malformed : int;
                 p_exhaust : bool; p_vanish : bool }

(* the configuration part of an H line *)
let draw_cfg (prof : profile) : string =
  let auth = rnd 100 < prof.p_auth in
  let has_user = rnd 3 = 0 in
  let rdelay = pick [300; 1000; 1500] in
  let rcount = pick [0; 1; 2; 2; 3] in
  let predef =
    if prof.p_exhaust then
      (* all but a handful of topic IDs are predefined for every client: a few registrations exhaust the space *)
      Printf.sprintf "x2a:%s%d-65534=%s%s" (if coin () then "1=" ^ hex_of_bytes (bs "p/1") ^ "," else "") (4 + rnd 10) (hex_of_bytes (bs "p/x"))
        (if coin () then ";" ^ hex_of_bytes (bs "cl1") ^ ":2=" ^ hex_of_bytes (bs "p/1") else "")
    else gen_predef () in
  Printf.sprintf "auth=%d user=%s pass=%s rdelay=%d rcount=%d predef=%s" (if auth then 1 else 0)
    (if has_user then hex_of_bytes (bs "gwuser") else "-") (if has_user && coin () then hex_of_bytes (bs "gwpass") else "-")
    rdelay rcount predef

let gen_history ?(cfgstr : string option) (idx : int) (prof : profile) (oc : out_channel) =
  let cfgstr = match cfgstr with Some c -> c | None -> draw_cfg prof in
  let hline = Printf.sprintf "H %d %s" idx cfgstr in
  let rdelay = int_of_string (Hashtbl.find (Gw_io.kv_tbl (split_on ' ' cfgstr)) "rdelay") in
  let cfg = Gw_io.parse_cfg (List.tl (List.tl (split_on ' ' hline))) in
  output_string oc (hline ^ "\n");
  let s = ref (init_state cfg) in
  let cid = pick clients in
  let next_mid = ref (1 + rnd 3) in
  let fresh_mid () = let m = !next_mid in next_mid := (if m >= 65535 then 1 else m + 1 + rnd 2); m in
  let rec ambiguous_advance (st : gw_state) (target : int) : bool =
    match List.sort compare (deadlines st) with
    | [] -> false
    | m :: rest ->
      if m > target then false
      else if m = target then true                          (* the driver would wake exactly on a deadline *)
      else if (match rest with m2 :: _ -> m2 = m | [] -> false) then true   (* two timers at one instant *)
      else
        let (st', _) = gw_step cfg st (EvAdvance (n_of_int (m - int_of_n st.gw_now))) in
        if st'.gw_ended then false else ambiguous_advance st' target in
  let emit (text : string) : bool =
    (* step the model; refuse the event if it creates a same-instant ambiguity *)
    let ev = Gw_io.parse_event text in
    let amb_before = (match ev with
        | EvAdvance d -> ambiguous_advance !s (int_of_n !s.gw_now + int_of_n d)
        | _ -> false) in
    if amb_before then false else begin
      let (s', _) = gw_step cfg !s ev in
      if dup_times s' then false else begin
        s := s'; output_string oc ("E " ^ text ^ "\n"); true end end in
  let emit_or_skip text = if not (emit text) then (ignore (emit "ADV 1"); ignore (emit text)) in
  let adv_safe d = let rec go d k = if k > 6 then () else if not (emit (Printf.sprintf "ADV %d" d)) then go (d + 1 + rnd 3) (k + 1) in go (max 1 d) 0 in
  let live_mids () = keys !s.gw_by_id in
  (* topic IDs a client may plausibly use: registered ones and every ID the gateway ever told it *)
  let reg_ids () = List.sort_uniq compare (keys !s.gw_registered @ List.map (fun (i, _) -> int_of_n i) !s.gw_handed_out) in
  let some_mid () = match live_mids () with [] -> fresh_mid () | l -> if rnd 5 = 0 then fresh_mid () else pick l in
  let some_tid () = match reg_ids () with [] -> 1 + rnd 3 | l -> if rnd 6 = 0 then 1 + rnd 70000 land 65535 else pick l in
  let nlen = 4 + rnd 36 in
  let terminal = ref false in
  let connect_pkt () =
    let dur = pickw [ (1, 0); (3, 1); (3, 2); (3, 3); (3, 5); (2, 10); (3, 60) ] in
    (* now and then the peer re-CONNECTs under another client ID *)
    Connect (rnd 100 < prof.p_will, coin (), nn 1, nn dur, bs (if rnd 10 = 0 then pick clients else cid)) in
  let auth_pkt () =
    match rnd 8 with
    | 0 -> Auth (nn 0, bs "OTHER", bs "x")
    | 1 -> Auth (nn 0, bs "PLAIN", [nn 0; nn 117])             (* two parts only *)
    | 2 -> Auth (nn 0, bs "PLAIN", [nn 0; nn 117; nn 0; nn 112; nn 0; nn 113])  (* four parts *)
    | 3 -> Auth (nn 0, bs "PLAIN", [])
    | _ ->
      (* now and then credentials that only this history uses (sessions of one gateway must not mix them up) *)
      let own = string_of_int (idx mod 10) in
      Auth (nn (rnd 2), bs "PLAIN", [nn 0] @ bs (pick ["u1"; "user2"; ""; "u" ^ own]) @ [nn 0] @ bs (pick ["pw"; ""; "p\001w"; "pw" ^ own; "pw" ^ own])) in
  let client_publish () =
    let qos = pickw [ (3, 0); (3, 1); (3, 2); (2, 3) ] in
    let tit = pickw [ (5, 0); (3, 1); (3, 2); (1, 3) ] in
    let tid = match tit with
      | 0 -> some_tid ()
      | 1 -> pick [1; 2; 3; 4; 5; 6; 9]
      | 2 -> int_of_n (encode_short (bs (pick shorts)))
      | _ -> rnd 65536 in
    let mid = if qos = 0 || qos = 3 then (if rnd 4 = 0 then rnd 5 else 0) else (if rnd 8 = 0 then 0 else if rnd 4 = 0 then some_mid () else fresh_mid ()) in
    Publish (rnd 6 = 0, nn qos, coin (), nn tit, nn tid, nn mid, payload ()) in
  let subscribe () =
    let qos = pickw [ (3, 0); (3, 1); (3, 2); (1, 3) ] in
    match rnd 6 with
    | 0 | 1 | 2 -> Subscribe (rnd 5 = 0, nn qos, nn 0, nn (fresh_mid ()), nn 0,
                              bs (if prof.p_exhaust && coin () then "sub/" ^ string_of_int (rnd 40) else if rnd 5 = 0 then pick pnames else pick names))
    | 3 -> Subscribe (false, nn qos, nn 1, nn (fresh_mid ()), nn (pick [1; 2; 3; 4; 5; 6; 9]), [])
    | 4 -> Subscribe (false, nn qos, nn 2, nn (fresh_mid ()), encode_short (bs (pick shorts)), [])
    | _ -> Subscribe (false, nn qos, nn 0, nn (some_mid ()), nn 0, bs (if rnd 4 = 0 then pick pnames else pick names)) in
  let unsubscribe () =
    match rnd 4 with
    | 0 | 1 -> Unsubscribe (nn 0, nn (fresh_mid ()), nn 0, bs (pick names))
    | 2 -> Unsubscribe (nn 1, nn (fresh_mid ()), nn (pick [1; 2; 3; 9]), [])
    | _ -> Unsubscribe (nn 2, nn (fresh_mid ()), encode_short (bs (pick shorts)), []) in
  let broker_publish () =
    let qos = pickw [ (4, 0); (4, 1); (4, 2); (1, 3) ] in
    let topic = match rnd 10 with
      | 0 | 1 -> pick shorts
      | 2 | 3 -> pick ["p/1"; "p/2"; "p/any"; "pq"; "p/3"]
      | 4 | 5 | 6 -> pick names
      | 7 -> (match nmap_to_list !s.gw_registered with [] -> pick names | l -> let (_, nm) = pick l in String.concat "" (List.map (fun x -> String.make 1 (Char.chr (int_of_n x))) nm))
      | _ -> "new/" ^ string_of_int (rnd (if prof.p_exhaust then 40 else 4)) in
    (* a conforming broker never uses packet identifier 0 *)
    (* one in six: a packet identifier that equals a topic ID in use (the two number spaces both start at 1) *)
    let mid = if qos = 0 then 0 else (match rnd 12 with 0 | 1 | 2 -> max 1 (some_mid ()) | 3 | 4 -> max 1 (some_tid ()) | _ -> fresh_mid ()) in
    MqPublish (rnd 8 = 0, nn qos, coin (), bs topic, nn mid, payload ()) in
  let malformed () : n list =
    match rnd 6 with
    | 0 -> List.init (rnd 5) (fun _ -> nn (rnd 256))
    | 1 -> [nn 1; nn 0]
    | 2 -> [nn 3; nn (pick [0; 1; 2; 5; 0x13; 0x15; 0x17; 0x1a; 0x1c; 0x30; 0xff]); nn (rnd 256)]
    | 3 -> let b = pack (client_publish ()) in (match b with _ :: r -> nn (rnd 256) :: r | [] -> [])
    | 4 -> [nn 10; nn 3; nn 0; nn 254; nn 0; nn 0; nn 0; nn 0; nn 0; nn 0]
    | _ -> let b = pack (connect_pkt ()) in List.filteri (fun k _ -> k < List.length b - 1 - rnd 4) b in
  let other_kind () : packet =
    pick [Advertise (nn 1, nn 2); SearchGw (nn 1); GwInfo (nn 1, []); Connack (nn 0); WillTopicReq; WillMsgReq;
          Suback (nn 0, nn 1, nn 1, nn 0); Unsuback (nn 1); Pingresp; WillTopicUpd (nn 0, false, bs "t");
          WillTopicResp (nn 0); WillMsgUpd (bs "m"); WillMsgResp (nn 0)] in
  let connected () = !s.gw_st <> Disconnected in
  let step_once () =
    (* time passes between most events, with offsets that avoid the 100 ms poll grid *)
    if rnd 3 > 0 then adv_safe (pickw [ (5, 1 + rnd 40); (2, 101 + rnd 300); (1, 7 + 100 * rnd 9) ]);
    if !s.gw_ending <> None || !s.gw_ended then () else
    let pending_connect = !s.gw_connect <> None in
    let asleep = (!s.gw_st = Asleep) in
    let choice =
      if not (connected ()) && not pending_connect then
        pickw [ (60, `Connect); (prof.p_preconnect, `PreIllegal); (6, `PubM1); (3, `Disconnect0); (3, `Auth); (2, `WillMsg);
                (2, `WillTopic); (3, `BrokerStuff); (2, `Adv); (prof.p_malformed, `Malformed) ]
      else if pending_connect && rnd 100 < 55 then
        (* the next packet the exchange is waiting for *)
        (match get_connect !s with
         | Some ((_, _), CxAuth) -> `GoodAuth
         | Some ((_, _), CxWillTopic) -> `GoodWillTopic
         | Some ((_, _), CxWillMsg) -> `WillMsg
         | Some ((_, _), CxConnack) -> `Connack
         | None -> `Connack)
      else if pending_connect then
        pickw [ (30, `Connack); (12, `Auth); (12, `WillTopic); (12, `WillMsg); (5, `Connect); (6, `Silence); (4, `PreIllegal); (4, `RefusedThenSilence);
                (if connected () then 2 else 0), `Sleep;
                (3, `BrokerStuff); (5, `Adv); (2, `Disconnect0); (prof.p_malformed, `Malformed); (2, `Terminal) ]
      else if asleep then
        pickw [ (25, `Pingreq); (25, `BrokerPublish); (8, `Adv); (8, `BigAdv); (5, `Connect); (4, `WakeOtherId); (5, `Disconnect0); (5, `Sleep);
                (5, `ClientAck); (4, `BrokerStuff); (3, `ClientPublish); (3, `Terminal); (2, `Register); (6, `Progress) ]
      else
        pickw [ (14, `Register); (16, `ClientPublish); (12, `Subscribe); (5, `Unsubscribe); (prof.p_broker_pub, `BrokerPublish);
                (14, `ClientAck); (12, `BrokerStuff); (4, `Pingreq); (4, `Pubrel); (prof.p_sleep, `Sleep); (3, `Disconnect0);
                (3, `Connect); (6, `Adv); (4, `TimerEdge); (4, `Cross); (3, `CrossReg); (16, `Progress); (6, `Flow2); (2, `Auth); (1, `WillTopic); (1, `WillMsg); (3, `Terminal);
                (prof.p_malformed, `Malformed); (1, `OtherKind) ] in
    match choice with
    | `Connect -> emit_or_skip (ev_sn (connect_pkt ()))
    | `Auth -> emit_or_skip (ev_sn (auth_pkt ()))
    | `GoodAuth ->
      let own = string_of_int (idx mod 10) in
      emit_or_skip (ev_sn (Auth (nn 0, bs "PLAIN", [nn 0] @ bs (pick ["u1"; "u" ^ own]) @ [nn 0] @ bs (pick ["pw"; "pw" ^ own; "pw" ^ own]))))
    | `GoodWillTopic -> emit_or_skip (ev_sn (WillTopic (nn (rnd 3), coin (), bs (pick ["will/t"; "w"]))))
    | `WillTopic ->
      emit_or_skip (ev_sn (if rnd 6 = 0 then WillTopic (nn 0, false, []) else WillTopic (nn (rnd 4), coin (), bs (pick ["will/t"; "w"; "will/+"]))))
    | `WillMsg -> emit_or_skip (ev_sn (WillMsg (if rnd 5 = 0 then [] else bs "bye")))
    | `Connack -> emit_or_skip (ev_mq (MqConnack (false, nn (pickw [ (8, 0); (1, 1); (1, 2); (1, 4); (1, 5) ]))))
    | `PubM1 ->
      let tit = pick [1; 2; 2; 0] in
      emit_or_skip (ev_sn (Publish (false, nn 3, coin (), nn tit,
                                    (if tit = 2 then encode_short (bs (pick shorts)) else nn (pick [1; 2; 3; 9])), nn 0, payload ())))
    | `PreIllegal ->
      emit_or_skip (ev_sn (pick [Register (nn 0, nn 1, bs "a/b"); subscribe (); client_publish (); Pingreq []; Pubrel (nn 1);
                                 Disconnect (nn 5); Regack (nn 1, nn 1, nn 0); Puback (nn 1, nn 1, nn 0); unsubscribe ();
                                 Pubrec (nn 1); Pubcomp (nn 1)]))
    | `Register ->
      let nm = if prof.p_exhaust && rnd 3 > 0 then "r/" ^ string_of_int (rnd 40) else
          match rnd 7 with 0 -> "s/+" | 1 -> String.make nlen 'n' | 2 -> pick pnames | _ -> pick names in
      emit_or_skip (ev_sn (Register (nn 0, nn (fresh_mid ()), bs nm)))
    | `ClientPublish -> emit_or_skip (ev_sn (client_publish ()))
    | `Subscribe -> emit_or_skip (ev_sn (subscribe ()))
    | `Unsubscribe -> emit_or_skip (ev_sn (unsubscribe ()))
    | `Pingreq -> emit_or_skip (ev_sn (Pingreq (if coin () then bs cid else [])))
    | `Pubrel -> emit_or_skip (ev_sn (Pubrel (nn (some_mid ()))))
    | `Disconnect0 ->
      (* one in four in the other legal encoding: the Duration field present with value 0 (04 18 00 00) *)
      let long = rnd 4 = 0 in
      emit_or_skip (if long then ev_raw [nn 4; nn 24; nn 0; nn 0] else ev_sn (Disconnect (nn 0))); terminal := true;
      (* ... sometimes followed at once by a CONNECT: the session is over, nothing may answer it (C07) *)
      if long && coin () then ignore (emit (ev_sn (connect_pkt ())))
    | `Sleep ->
      let k = int_of_n !s.gw_keepalive in
      (* incl. durations whose low byte is zero (two-byte field) *)
      let d = pickw [ (3, max 1 (k - 1)); (2, k); (4, k + 1); (3, 2 * k + 1); (2, 3 * k + 2); (1, 1); (1, pick [256; 512; 3840]);
                      ((if prof.p_vanish then 8 else 0), 5 * k + 20 + rnd 100) ] in
      emit_or_skip (ev_sn (Disconnect (nn d)))
    | `ClientAck ->
      let mid = some_mid () in
      let rc = if rnd 6 = 0 then 1 + rnd 3 else 0 in
      emit_or_skip (ev_sn (pick [Regack (nn (some_tid ()), nn mid, nn rc); Puback (nn (some_tid ()), nn mid, nn rc);
                                 Pubrec (nn mid); Pubcomp (nn mid); Regack (nn 0, nn mid, nn rc)]))
    | `BrokerStuff ->
      let mid = some_mid () in
      emit_or_skip (ev_mq (pickw [ (3, MqPuback (nn mid)); (2, MqPubrec (nn mid)); (2, MqPubcomp (nn mid));
                                   (4, MqSuback (nn mid, [nn (pick [0; 1; 2; 2; 128])])); (1, MqSuback (nn mid, [nn 0; nn 1]));
                                   (1, MqSuback (nn mid, [])); (2, MqUnsuback (nn mid)); (2, MqPingresp); (2, MqPubrel (nn mid));
                                   (1, MqConnack (false, nn 0)) ]))
    | `BrokerPublish -> emit_or_skip (ev_mq (broker_publish ()))
    | `Progress ->
      (* the packet one of the exchanges in progress is waiting for (sometimes twice: a duplicated datagram) *)
      (match List.filter (fun (_, t) -> match t with TxConnect _ -> false | _ -> true) (nmap_to_list !s.gw_objs) with
       | [] -> emit_or_skip (ev_mq (broker_publish ()))
       | l ->
         let (_, t) = pick l in
         let stale = rnd 5 = 0 in
         let next = (match t with
             (* a datagram of the previous step of the exchange arrives again, late *)
             | TxBrokerPub (mid, _, AwaitPubcomp, _, _, _) when stale -> Some (ev_sn (Pubrec mid))
             (* a late acknowledgement (accepting or rejecting) of an EARLIER exchange with the same message ID
                arrives while this one still waits for the REGACK of its REGISTER step *)
             | TxBrokerPub (mid, q, AwaitRegack, RsSn (Register (tid, _, _)), _, _) when stale && int_of_n q > 0 ->
               Some (ev_sn (if int_of_n q = 1 then Puback (tid, mid, nn (pick [0; 1; 2; 3])) else Pubrec mid))
             (* ... or the late REGACK of an earlier REGISTER step with the same message ID (QoS 0 exchanges share one):
                it names ANOTHER topic ID than the REGISTER that is waiting *)
             | TxBrokerPub (_, _, AwaitRegack, RsSn (Register (tid, m, _)), _, _) when stale || rnd 6 = 0 ->
               (match List.filter (fun (i, _) -> i <> tid) (nmap_to_list !s.gw_registered) with
                | [] -> Some (ev_sn (Regack (tid, m, nn 0)))
                | l -> Some (ev_sn (Regack (fst (pick l), m, nn 0))))
             | TxBrokerPub (mid, q, (AwaitPuback | AwaitPubrec), _, Some (Publish (_, _, _, _, tid, _, _)), _) when stale && int_of_n q > 0 ->
               Some (ev_sn (Regack (tid, mid, nn 0)))
             | TxBrokerPub (mid, _, st, data, snpub, _) ->
               (match st, data, snpub with
                | AwaitRegack, RsSn (Register (tid, m, _)), _ -> Some (ev_sn (Regack (tid, m, nn 0)))
                | AwaitPuback, _, Some (Publish (_, _, _, _, tid, _, _)) -> Some (ev_sn (Puback (tid, mid, nn 0)))
                | AwaitPubrec, _, _ -> Some (ev_sn (Pubrec mid))
                | AwaitPubrel, _, _ -> Some (ev_mq (MqPubrel mid))
                | AwaitPubcomp, _, _ -> Some (ev_sn (Pubcomp mid))
                | _ -> None)
             | TxClientPub1 (mid, _) -> Some (ev_mq (MqPuback mid))
             | TxSubscribe (mid, _) -> Some (ev_mq (MqSuback (mid, [nn (rnd 3)])))
             | TxConnect _ -> None) in
         (match next with
          | Some e -> emit_or_skip e; if rnd 6 = 0 then (if rnd 2 = 0 then adv_safe (1 + rnd 40); if !s.gw_ending = None && not !s.gw_ended then emit_or_skip e)
          | None -> ()))
    | `Flow2 ->
      (* C16: a whole QoS 2 flow of a broker message, every datagram of the client possibly duplicated
         with the copy arriving one step late *)
      let alive () = !s.gw_ending = None && not !s.gw_ended && !s.gw_st = Active in
      let mid = fresh_mid () in
      let late () = if rnd 3 = 0 then adv_safe (1 + rnd 40) in
      emit_or_skip (ev_mq (MqPublish (false, nn 2, coin (), bs (pick shorts), nn mid, payload ())));
      late ();
      if alive () then emit_or_skip (ev_sn (Pubrec (nn mid)));
      late ();
      if alive () && rnd 8 > 0 then emit_or_skip (ev_mq (MqPubrel (nn mid)));
      if alive () && rnd 3 = 0 then emit_or_skip (ev_sn (Pubrec (nn mid)));        (* the copy of the PUBREC *)
      late ();
      if alive () then emit_or_skip (ev_sn (Pubcomp (nn mid)));
      if alive () && rnd 4 = 0 then emit_or_skip (ev_sn (Pubcomp (nn mid)))
    | `Cross ->
      (* C06: an exchange of each direction, the two interleaved, where the broker's packet identifier equals
         the topic ID the client publishes on (the number spaces both start at 1) or the client's message ID *)
      (match nmap_to_list !s.gw_registered with
       | [] -> ()
       | l ->
         let (tid, nm) = pick l in
         let tid = int_of_n tid in
         let cm = if rnd 3 = 0 then tid else fresh_mid () in
         let q = 1 + rnd 2 in
         let alive () = !s.gw_ending = None && not !s.gw_ended in
         emit_or_skip (ev_mq (MqPublish (false, nn q, false, nm, nn tid, payload ())));
         if rnd 4 = 0 then adv_safe (1 + rnd 30);
         let cq = if rnd 3 = 0 then 2 else 1 in      (* a client QoS 2 PUBLISH keeps no state in the gateway: no interference *)
         if alive () then emit_or_skip (ev_sn (Publish (false, nn cq, false, nn 0, nn tid, nn cm, payload ())));
         if alive () then
           (match rnd 4 with
            | 0 -> adv_safe (rdelay + 3)                                   (* the client's exchange times out / is retried *)
            | _ -> emit_or_skip (ev_mq (MqPuback (nn cm))));
         if rnd 4 = 0 then adv_safe (1 + rnd 30);
         if alive () then emit_or_skip (ev_sn (if q = 1 then Puback (nn tid, nn tid, nn 0) else Pubrec (nn tid))))
    | `WakeOtherId ->
      (* C32 / C04: a sleeping client returns with a CONNECT that carries ANOTHER client ID (the session keeps its
         identity: doc/specification-interpretation.md); then traffic on predefined topic IDs, whose names differ
         between the client IDs of the shared configuration, in both directions *)
      let other = (match List.filter (fun c -> c <> cid) clients with [] -> cid | l -> pick l) in
      emit_or_skip (ev_sn (Connect (false, false, nn 1, nn (pick [2; 5; 60]), bs other)));
      let alive () = !s.gw_ending = None && not !s.gw_ended in
      for _ = 1 to 1 + rnd 3 do
        if alive () then
          (match rnd 3 with
           | 0 -> emit_or_skip (ev_sn (Publish (false, nn 0, false, nn 1, nn (pick [1; 2; 3; 5; 6]), nn 0, payload ())))
           | 1 -> emit_or_skip (ev_sn (Subscribe (false, nn (rnd 2), nn 1, nn (fresh_mid ()), nn (pick [1; 2; 3; 5; 6]), [])))
           | _ -> emit_or_skip (ev_mq (MqPublish (false, nn 0, false, bs (pick pnames), nn 0, payload ()))))
      done
    | `CrossReg ->
      (* C06 / C02: a client QoS 1 PUBLISH (or SUBSCRIBE) in flight without the broker's answer; a broker PUBLISH with the
         SAME message ID on a topic without ID starts its REGISTER step; the client's exchange times out (or is
         answered late) during that step; then the client's REGACK: the broker exchange must still be there *)
      let cm = fresh_mid () in
      let alive () = !s.gw_ending = None && not !s.gw_ended && !s.gw_st = Active in
      let t0 = int_of_n !s.gw_now in
      emit_or_skip (ev_sn (if rnd 3 = 0 then Subscribe (false, nn 1, nn 2, nn cm, encode_short (bs (pick shorts)), [])
                           else Publish (false, nn 1, false, nn 2, encode_short (bs (pick shorts)), nn cm, payload ())));
      adv_safe (1 + rnd (max 1 (rdelay - 60)));
      let topic = "new/" ^ string_of_int (100 + rnd 400) in
      if alive () then emit_or_skip (ev_mq (MqPublish (false, nn (1 + rnd 2), coin (), bs topic, nn cm, payload ())));
      (match rnd 3 with
       | 0 -> ()                                                               (* REGACK while the client's exchange is pending *)
       | 1 -> adv_safe (max 1 (t0 + rdelay + 2 - int_of_n !s.gw_now))            (* ... after it timed out *)
       | _ -> if alive () then emit_or_skip (ev_mq (MqPuback (nn cm))));        (* ... after the broker answered it *)
      if alive () then
        (match List.filter_map (fun (_, t) -> match t with
             | TxBrokerPub (mid, _, AwaitRegack, RsSn (Register (tid, m, _)), _, _) when int_of_n mid = cm -> Some (tid, m)
             | _ -> None) (nmap_to_list !s.gw_objs) with
         | (tid, m) :: _ -> emit_or_skip (ev_sn (Regack (tid, m, nn 0)))
         | [] -> emit_or_skip (ev_sn (Regack (nn (int_of_n !s.gw_seq_next - 1), nn cm, nn 0))))
    | `Adv -> adv_safe (pickw [ (3, 1 + rnd 90); (3, rdelay - 1); (3, rdelay + 1); (2, 2 * rdelay + 3); (1, 5003) ])
    | `BigAdv -> adv_safe (1000 * (1 + rnd 12) + 1 + rnd 7)
    | `TimerEdge ->
      (match deadlines !s with
       | [] -> adv_safe (1 + rnd 50)
       | l -> let t = pick l - int_of_n !s.gw_now in adv_safe (max 1 (t + pick [-1; 1; 1; 50])))
    | `RefusedThenSilence ->
      (* a CONNECT the gateway refuses by itself (keep-alive 0 / unknown protocol ID) in the middle of the
         exchange, then the client falls silent: the half-open exchange must still end the session (C10) *)
      emit_or_skip (ev_sn (if coin () then Connect (false, coin (), nn 1, nn 0, bs cid) else Connect (false, coin (), nn 2, nn 5, bs cid)));
      adv_safe (pick [5150; 5300; 6000]); if !s.gw_ending <> None || !s.gw_ended then terminal := true
    | `Silence -> adv_safe (pick [4990; 5001; 5200]); if !s.gw_ending <> None || !s.gw_ended then terminal := true
    | `Malformed -> emit_or_skip (ev_raw (malformed ())); if !s.gw_ending <> None then terminal := true
    | `OtherKind -> emit_or_skip (ev_sn (other_kind ())); terminal := true
    | `Terminal ->
      emit_or_skip (pick ["SHUTDOWN"; "MQEOF"; "MQRAW x0000"; "MQRAW xf000"; "MQ PINGREQ"; "MQ DISCONNECT"; "SHUTDOWN"; "MQEOF"]);
      terminal := true in
  (* C07: now and then the very first datagram of a session is a DISCONNECT in its other legal encoding (Duration field
     present, value 0), followed at once by a CONNECT and a PUBLISH: the session is over, nothing may answer them *)
  if rnd 40 = 0 then begin
    ignore (emit (ev_raw [nn 4; nn 24; nn 0; nn 0]));
    ignore (emit (ev_sn (connect_pkt ())));
    ignore (emit (ev_sn (Publish (false, nn 0, false, nn 2, encode_short (bs "ab"), nn 0, [nn 1]))));
    terminal := true
  end;
  let len = 4 + rnd 36 in
  let k = ref 0 in
  while !k < len && not !terminal && !s.gw_ending = None && not !s.gw_ended do
    step_once (); incr k
  done;
  (* let a terminating session finish (and be observed) *)
  if !s.gw_ending <> None then adv_safe (101 + rnd 50)
  else if prof.p_vanish && not !s.gw_ended then begin
    (* the client vanishes: a long silence, at the end of which the broker would have given up *)
    adv_safe (1000 * (20 + rnd 200) + rnd 900);
    if !s.gw_ending = None && not !s.gw_ended && coin () then (ignore (emit "MQEOF"); adv_safe (101 + rnd 50)) end
  else if rnd 3 = 0 then adv_safe (pick [50; 1200; 5100]);
  output_string oc "END\n"

let profiles = [|
  { p_auth = 0; p_sleep = 4; p_broker_pub = 14; p_preconnect = 10; p_will = 25; p_malformed = 2; p_exhaust = false; p_vanish = false };   (* general *)
  { p_auth = 100; p_sleep = 2; p_broker_pub = 6; p_preconnect = 25; p_will = 50; p_malformed = 2; p_exhaust = false; p_vanish = false };  (* connect exchange / auth *)
  { p_auth = 10; p_sleep = 25; p_broker_pub = 25; p_preconnect = 5; p_will = 10; p_malformed = 1; p_exhaust = false; p_vanish = false };  (* sleep cycles *)
  { p_auth = 20; p_sleep = 3; p_broker_pub = 35; p_preconnect = 5; p_will = 10; p_malformed = 1; p_exhaust = false; p_vanish = false };   (* broker publishes, retries *)
  { p_auth = 10; p_sleep = 30; p_broker_pub = 10; p_preconnect = 3; p_will = 5; p_malformed = 0; p_exhaust = false; p_vanish = true };   (* long sleeps, the client vanishes *)
|]

(* groups of k histories that share one configuration: the sessions of one gateway (C15) *)
let run_multi (seed : int) (groups : int) (k : int) (out : string) =
  seed_rng seed;
  let oc = if out = "-" then stdout else open_out out in
  for g = 0 to groups - 1 do
    if g mod 2 = 0 then begin
      (* every other group: concurrent connect exchanges on a gateway with authentication and default credentials *)
      let cfgstr = Printf.sprintf "auth=1 user=%s pass=%s rdelay=%d rcount=%d predef=%s" (hex_of_bytes (bs "gwuser"))
          (hex_of_bytes (bs "gwpassword")) (pick [300; 1000; 1500]) (pick [0; 1; 2; 3]) (gen_predef ()) in
      for j = 0 to k - 1 do gen_history ~cfgstr (g * k + j) profiles.(1) oc done end
    else begin
      let prof = profiles.(g mod 4) in
      let cfgstr = draw_cfg prof in
      for j = 0 to k - 1 do gen_history ~cfgstr (g * k + j) profiles.((g + j) mod 4) oc done end
  done;
  if out <> "-" then close_out oc

let run (seed : int) (n : int) (out : string) =
  seed_rng seed;
  let oc = if out = "-" then stdout else open_out out in
  for idx = 0 to n - 1 do
    if idx mod 60 = 59 then
      gen_history idx { p_auth = 0; p_sleep = 6; p_broker_pub = 30; p_preconnect = 2; p_will = 5; p_malformed = 0;
                        p_exhaust = true; p_vanish = false } oc   (* topic-ID exhaustion *)
    else gen_history idx profiles.(idx mod Array.length profiles) oc
  done;
  if out <> "-" then close_out oc
