(* cmp_txn.ml — transactions.RetryTransaction / TimedTransaction under drv_txn against the
   model (Txn/Txn.v); C18/C19 statements evaluated on the implementation's trace. *)
open Model
open Conv

let terr_name = function
  | TeNil -> "nil" | TeTimeout -> "timeout" | TeNoRetries -> "noretries" | TeCb -> "tag:cb"
  | TeTag x -> "tag:" ^ String.make 1 (Char.chr (int_of_n x))

let out_text = function
  | OCallback (t, d) -> Printf.sprintf "O %d CALLBACK %d" (int_of_n t) (int_of_n d)
  | OFinally t -> Printf.sprintf "O %d FINALLY" (int_of_n t)
  | ODone t -> Printf.sprintf "O %d DONE" (int_of_n t)

let status (s : txn_state) =
  Printf.sprintf "S %d done=%d err=%s finally=%d callbacks=%d" (int_of_n s.t_now) (if s.t_done then 1 else 0)
    (terr_name s.t_err) (int_of_n s.t_finally) (int_of_n s.t_callbacks)

let parse_event (text : string) : txn_event =
  match split_on ' ' text with
  | ["PROCEED"; n] -> EvProceed (n_of_int (int_of_string n))
  | ["SUCCESS"] -> EvSuccess
  | ["FAIL"; tag] -> EvFail (n_of_int (Char.code tag.[0]))
  | ["CBFAIL"; b] -> EvCbFail (b <> "0")
  | ["CANCEL"] -> EvCancel
  | ["ADV"; d] -> EvAdv (n_of_int (int_of_string d))
  | _ -> failwith ("bad txn event " ^ text)

let run (hist : string) (impl : string) =
  (* impl trace: per history, per event: list of lines (O/S) *)
  let itbl = Hashtbl.create 256 in
  let cur = ref None in
  let flush_cur () = match !cur with
    | Some (idx, evs, xs) -> Hashtbl.replace itbl idx (List.rev_map (fun (e, os) -> (e, List.rev os)) evs, xs)
    | None -> () in
  List.iter (fun line ->
      match split_on ' ' line with
      | ["H"; idx] -> flush_cur (); cur := Some (int_of_string idx, [], [])
      | "E" :: _ :: rest -> (match !cur with Some (i, evs, xs) -> cur := Some (i, (String.concat " " rest, []) :: evs, xs) | None -> ())
      | ("O" | "S") :: _ -> (match !cur with Some (i, (e, os) :: evs, xs) -> cur := Some (i, (e, line :: os) :: evs, xs) | _ -> ())
      | "X" :: _ -> (match !cur with Some (i, evs, xs) -> cur := Some (i, evs, line :: xs) | None -> ())
      | _ -> ()) (read_lines impl);
  flush_cur ();
  let nh = ref 0 and nev = ref 0 and ndiv = ref 0 and nfail = ref 0 and nontriv = Hashtbl.create 256 in
  let hcur = ref None in
  let finish_h () = () in
  let lines = read_lines hist in
  let process idx retry delay count (evs : string list) =
    incr nh;
    let diverged = ref false in
    let mismatch k detail = if not !diverged then begin diverged := true; incr ndiv;
        Printf.printf "MISMATCH TXN h=%d e=%d :: %s\n" idx k detail end in
    let fail prop clause k detail = incr nfail; Printf.printf "FAIL %s %s h=%d e=%d :: %s\n" prop clause idx k detail in
    match (try Some (Hashtbl.find itbl idx) with Not_found -> None) with
    | None -> mismatch 0 "history absent from the implementation trace"
    | Some (ievs, xs) ->
      List.iter (fun x -> mismatch 0 x; fail "C18" "panic" 0 x; fail "C25" "panic" 0 x) xs;
      let s = ref (txn_new retry (n_of_int delay) (n_of_int count)) in
      let ievs = Array.of_list ievs in
      let was_done = ref false and err_at_done = ref "" and finallies = ref 0 in
      List.iteri (fun k text ->
          incr nev;
          let (s', outs) = txn_step !s (parse_event text) in
          s := s';
          let m = List.map out_text outs @ [status s'] in
          let i = if k < Array.length ievs then snd ievs.(k) else [] in
          if List.length i > 1 then Hashtbl.replace nontriv (string_of_int idx ^ text ^ String.concat "|" i) ();
          if m <> i then mismatch k (Printf.sprintf "model=[%s] impl=[%s] event=%s" (String.concat "; " m) (String.concat "; " i) text);
          (* C19: the model's callback and completion times ARE the exact schedule (the C19 theorems): an
             implementation whose retry callbacks / completion fall on other instants violates C19 on
             this very history *)
          let sched l = List.filter (fun x -> match split_on ' ' x with
              | "O" :: _ :: ("CALLBACK" | "DONE") :: _ -> true | _ -> false) l in
          if sched m <> sched i then
            fail "C19" "retry-schedule" k (Printf.sprintf "exact schedule=[%s] implementation=[%s] event=%s"
                                             (String.concat "; " (sched m)) (String.concat "; " (sched i)) text);
          (* C18 on the implementation's own trace *)
          List.iter (fun l ->
              (match split_on ' ' l with
               | ["O"; _; "FINALLY"] -> incr finallies; if !finallies > 1 then fail "C18" "finally-more-than-once" k l
               | "O" :: _ :: "CALLBACK" :: _ -> if !was_done then fail "C18" "callback-after-done" k l
               | "S" :: _ :: d :: e :: _ ->
                 if !was_done && e <> !err_at_done then fail "C18" "err-changed-after-done" k l;
                 if !was_done && d <> "done=1" then fail "C18" "done-reverted" k l;
                 if d = "done=1" && not !was_done then begin was_done := true; err_at_done := e end
               | _ -> ())) i)
        evs
  in
  ignore finish_h;
  let evs = ref [] in
  List.iter (fun line ->
      if String.length line > 0 && line.[0] = 'H' then begin
        let tbl = Gw_io.kv_tbl (split_on ' ' line) in
        hcur := Some (int_of_string (List.nth (split_on ' ' line) 1), Hashtbl.find tbl "kind" = "retry",
                      int_of_string (Hashtbl.find tbl "delay"), int_of_string (Hashtbl.find tbl "count"));
        evs := [] end
      else if line = "END" then begin
        (match !hcur with Some (idx, r, d, c) -> process idx r d c (List.rev !evs) | None -> ()); hcur := None end
      else if String.length line > 2 && line.[0] = 'E' then evs := String.sub line 2 (String.length line - 2) :: !evs)
    lines;
  Printf.printf "STAT evaluations=%d nontrivial=%d histories=%d\n" !nev (Hashtbl.length nontriv) !nh;
  Printf.printf "SUMMARY txn histories=%d events=%d diverging=%d failures=%d\n" !nh !nev !ndiv !nfail
