(* chk_cli.ml — observations of the three real binaries (drv_cli) against Cli/Options.v
   (tool_cfg, start-up guards) and against the statements of C30 / C31. *)
open Model
open Conv

let clip = Chk_codec.clip

let run (path : string) =
  let total = ref 0 and mism = ref 0 and fails = ref 0 and nontriv = ref 0 and samples = ref 0 in
  let mismatch what line = incr mism; if !mism <= 30 then Printf.printf "MISMATCH %s :: %s\n" what (clip line) in
  let fail prop clause line = incr fails; if !fails <= 30 then Printf.printf "FAIL %s %s :: %s\n" prop clause (clip line) in
  (* per configuration: what the gateway resolved (id -> topic) and the exit status of every tool *)
  let gw_map : (string, (int, string) Hashtbl.t) Hashtbl.t = Hashtbl.create 64 in
  let exits : (string, (string * string) list) Hashtbl.t = Hashtbl.create 64 in
  let pubsub : (string * string * int * string) list ref = ref [] in   (* cfgkey, name, tid, line *)
  List.iter (fun line ->
      match split_on ' ' line with
      | "CLI30" :: rest ->
        incr total;
        let tbl = Gw_io.kv_tbl rest in
        let g k = (try Hashtbl.find tbl k with Not_found -> "-") in
        let tool = g "tool" and file = g "file" and opts = g "opts" and client = g "client" and q = g "q" in
        let key = file ^ "|" ^ opts ^ "|" ^ client in
        let farg = if file = "-" then NoFile else FileOk (predef_of_string file) in
        let optl = if opts = "-" then [] else List.map bytes_of_hex (split_on '|' opts) in
        let t = (match tool with "bisquitt" -> TGateway | "bisquitt-pub" -> TPub | _ -> TSub) in
        let cfg = tool_cfg t farg optl in
        let ex = g "exit" in
        Hashtbl.replace exits key ((tool, if ex = "running" then "running" else "exit") :: (try Hashtbl.find exits key with Not_found -> []));
        let cid = bytes_of_hex client in
        (match cfg with
         | None -> if ex = "running" then mismatch "model: configuration is rejected, tool started" line
         | Some c ->
           if ex <> "running" then mismatch "model: configuration is accepted, tool exited" line
           else begin
             match split_on ':' q with
             | ["id"; n] ->
               let want = opt_hex (get_name c cid (n_of_int (int_of_string n))) in
               if want <> "-" then incr nontriv;
               if !samples < 3 && want <> "-" then (incr samples; Printf.printf "SAMPLE %s\n" (clip line));
               if g "topic" <> want then mismatch ("gateway topic model=" ^ want) line;
               let m = (try Hashtbl.find gw_map key with Not_found -> let m = Hashtbl.create 8 in Hashtbl.replace gw_map key m; m) in
               Hashtbl.replace m (int_of_string n) (g "topic")
             | ["name"; nm] ->
               let name = bytes_of_hex nm in
               let ids = List.map int_of_n (get_ids c cid name) in
               let tit = g "tit" and tid = g "tid" in
               if ids <> [] then begin
                 incr nontriv;
                 if not (tit = "1" && List.mem (int_of_string tid) ids) then
                   mismatch (Printf.sprintf "predefined id model={%s}" (String.concat "," (List.map string_of_int ids))) line;
                 if tit = "1" then pubsub := (key, nm, int_of_string tid, line) :: !pubsub
               end else if is_short_topic name then begin
                 if not (tit = "2" && int_of_string tid = int_of_n (encode_short name)) then mismatch "short topic expected" line
               end else if not (tit = "0") then mismatch "plain topic expected" line
             | _ -> ()
           end)
      | "CLI31" :: rest ->
        incr total;
        let tbl = Gw_io.kv_tbl rest in
        let g k = (try Hashtbl.find tbl k with Not_found -> "-") in
        let b k = g k = "1" in
        let tool = g "tool" and auth = g "auth" in
        let started = b "started" in
        if auth = "1" || auth = "0" then begin
          incr nontriv;
          let want = if tool = "bisquitt" then gateway_starts (auth = "1") (b "dtls") (b "insecure")
            else client_tool_starts (auth = "1") false (b "dtls") (b "insecure") in
          if want <> started then mismatch (Printf.sprintf "start-up model=%b" want) line
        end else if auth = "empty" && tool <> "bisquitt" then begin
          if client_tool_starts true true (b "dtls") (b "insecure") <> started then mismatch "empty user must be refused" line
        end;
        (* C31 itself, on the tool's behaviour *)
        if started && auth = "1" && not (b "dtls" || b "insecure") then fail "C31" "plaintext-credentials-allowed" line
      | "CLI31W" :: rest ->
        let tbl = Gw_io.kv_tbl rest in
        let g k = (try Hashtbl.find tbl k with Not_found -> "-") in
        (* credentials in clear on the wire only when the user asked for it *)
        if (g "plain_auth" = "1" || g "plain_pass" = "1") && not (g "insecure" = "1" && g "dtls" = "0") then
          fail "C31" "plaintext-credentials-on-wire" line
      | ["CLI15"; "two-peers"; "->"; r] ->
        (* the real gateway binary, two peer addresses: the end of one session must not touch the other *)
        incr total; incr nontriv;
        if r <> "ok" && r <> "skipped" then begin
          mismatch "listener isolation" line;
          fail "C15" "peer-session-affected-by-another-peer" line end
      | "CLISUMMARY" :: rest ->
        let tbl = Gw_io.kv_tbl rest in
        if (try Hashtbl.find tbl "errors" with Not_found -> "0") <> "0" then mismatch "driver reported errors" line
      | _ -> ())
    (read_lines path);
  (* C30 itself: the ID bisquitt-pub / bisquitt-sub derive from a name is read back by the gateway,
     under the same file and options, as that name; and all tools accept/reject alike *)
  List.iter (fun (key, nm, tid, line) ->
      match (try Some (Hashtbl.find gw_map key) with Not_found -> None) with
      | Some m -> (match (try Some (Hashtbl.find m tid) with Not_found -> None) with
          | Some topic -> if topic <> nm then fail "C30" "tools-disagree-on-mapping" (Printf.sprintf "gateway reads id %d as %s :: %s" tid topic line)
          | None -> ())
      | None -> ()) !pubsub;
  Hashtbl.iter (fun key l ->
      let st = List.sort_uniq compare (List.map snd l) in
      if List.length st > 1 then
        fail "C30" "tools-disagree-on-acceptance" (key ^ " " ^ String.concat "," (List.map (fun (t, s) -> t ^ "=" ^ s) l))) exits;
  Printf.printf "STAT evaluations=%d nontrivial=%d\n" !total !nontriv;
  Printf.printf "SUMMARY cli lines=%d mismatches=%d failures=%d\n" !total !mism !fails
