(* chk_codec.ml — codec correspondence (model vs drv_codec observations) and the
   extracted C20/C21/C22 checkers applied to the implementation's observations. *)
open Model
open Conv

let clip s = if String.length s > 300 then String.sub s 0 300 ^ "..." else s

let run (path : string) =
  let ic = open_in path in
  let total = ref 0 and mism = ref 0 and fails = ref 0 in
  let nontriv = ref 0 and samples = ref 0 in
  let kinds = Hashtbl.create 64 in
  let bump k = Hashtbl.replace kinds k (1 + (try Hashtbl.find kinds k with Not_found -> 0)) in
  let mismatch what line = incr mism; if !mism <= 40 then Printf.printf "MISMATCH %s :: %s\n" what (clip line) in
  let fail prop clause line = incr fails; if !fails <= 40 then Printf.printf "FAIL %s %s :: %s\n" prop clause (clip line) in
  let kind_of txt = match String.index_opt txt ' ' with Some k -> String.sub txt 0 k | None -> txt in
  (try
     while true do
       let line = input_line ic in
       (match split_on ' ' line with
        | "A" :: _ ->
          (* a packet decoded earlier packs to something else after another datagram was decoded *)
          fail "C22" "clause9 decoded-packet-changed-by-a-later-decode" line
        | "D" :: raws :: cls :: rest ->
          incr total;
          let raw = bytes_of_hex raws in
          let m = read_packet raw in
          (match cls with
           | "PANIC" ->
             bump "dec:PANIC";
             fail "C20" "decoding-panics" line;
             fail "C25" "decoding-panics" line;
             (match m with Panic _ -> () | _ -> mismatch "decode class model!=PANIC" line)
           | "ERR" ->
             bump "dec:ERR";
             (match m with Err _ -> () | Ok p -> mismatch ("decode class model=OK " ^ Ptext.text p) line
                          | Panic _ -> mismatch "decode class model=PANIC" line)
           | "OK" ->
             (* rest = pkt text tokens, "/", repacked *)
             let rec cut acc = function
               | "/" :: r -> (List.rev acc, r) | x :: r -> cut (x :: acc) r | [] -> (List.rev acc, []) in
             let (ptoks, after) = cut [] rest in
             let ptxt = String.concat " " ptoks in
             incr nontriv; bump ("dec:" ^ kind_of ptxt);
             if !samples < 3 && !nontriv mod 5000 = 1 then begin incr samples; Printf.printf "SAMPLE %s\n" (clip line) end;
             let ip = (try Some (Ptext.parse ptxt) with _ -> None) in
             let rpb = (match after with
                 | [rp] when String.length rp > 0 && rp.[0] = 'x' -> Some (bytes_of_hex rp)
                 | _ -> None) in
             (* the property, on the implementation's own observation *)
             (match ip, rpb with
              | Some q, Some rb ->
                List.iter (fun c -> fail "C22" ("clause" ^ string_of_int (int_of_n c)) line) (chk_C22 raw q rb)
              | _, _ -> fail "C22" "clause0" line);
             (* correspondence with the model *)
             (match m, ip with
              | Ok p, Some q ->
                if not (pkt_eqb p q) then mismatch ("decoded packet model=" ^ Ptext.text p) line;
                (match rpb with
                 | Some rb ->
                   (* fixed-length types re-pack with the header they were read with: compare type and body *)
                   if ref_split (pack q) <> ref_split rb then mismatch ("repack model=" ^ hex_of_bytes (pack q)) line
                 | None -> mismatch "repack failed" line)
              | _, None -> mismatch "unparsable packet text" line
              | Err _, _ -> mismatch "decode class model=ERR" line
              | Panic _, _ -> mismatch "decode class model=PANIC" line)
           | _ -> mismatch "bad D line" line)
        | "P" :: rest ->
          incr total;
          let rec cut acc = function
            | "/" :: r -> (List.rev acc, r) | x :: r -> cut (x :: acc) r | [] -> (List.rev acc, []) in
          let (ptoks, r1) = cut [] rest in
          let (htoks, dtoks) = cut [] r1 in
          let ptxt = String.concat " " ptoks in
          let p = Ptext.parse ptxt in
          bump ("pack:" ^ kind_of ptxt);
          (match htoks with
           | [hx] when String.length hx > 0 && hx.[0] = 'x' ->
             let mb = hex_of_bytes (pack p) in
             if mb <> hx then mismatch ("pack model=" ^ mb) line;
             let dtxt = String.concat " " dtoks in
             let decoded = (match dtxt with
                 | "ERR" | "-" -> None
                 | s when String.length s >= 5 && String.sub s 0 5 = "PANIC" ->
                   fail "C20" "decoding-panics" line; None
                 | s -> (try Some (Ptext.parse s) with _ -> None)) in
             if wf_pkt p then begin
               incr nontriv;
               if !samples < 6 && !nontriv mod 700 = 3 then begin incr samples; Printf.printf "SAMPLE %s\n" (clip line) end
             end;
             List.iter (fun c -> fail "C21" ("clause" ^ string_of_int (int_of_n c)) line)
               (chk_C21 p (bytes_of_hex hx) decoded);
             (* correspondence of decode(pack p) as well *)
             (match read_dgram (bytes_of_hex hx), decoded with
              | Ok a, Some b -> if not (pkt_eqb a b) then mismatch "decode(pack) packet" line
              | Ok _, None -> mismatch "decode(pack) model=OK impl=ERR" line
              | _, Some _ -> mismatch "decode(pack) model=ERR impl=OK" line
              | _, None -> ())
           | _ -> mismatch "pack failed" line)
        | ["S"; ids; nm; back; isshort] ->
          incr total;
          let name = bytes_of_hex nm in
          if ids <> "-" then begin
            let id = n_of_int (int_of_string ids) in
            if hex_of_bytes (decode_short id) <> nm then mismatch "DecodeShortTopic" line;
            if back <> ids then fail "C21" "short-topic-bijection" line;
            (* C32: the name a short ID decodes to must be a 2-byte name that encodes back to the ID *)
            if back <> ids || isshort <> "1" then fail "C32" "short-id-does-not-read-back" line;
            if not (chk_short id) then mismatch "model chk_short" line
          end;
          if int_of_n (encode_short name) <> int_of_string back then mismatch "EncodeShortTopic" line;
          if (if is_short_topic name then "1" else "0") <> isshort then mismatch "IsShortTopic" line
        | "X" :: _ -> mismatch "driver error" line
        | _ -> ())
     done
   with End_of_file -> ());
  close_in ic;
  let ks = Hashtbl.fold (fun k v acc -> (k, v) :: acc) kinds [] |> List.sort compare in
  Printf.printf "STAT evaluations=%d nontrivial=%d\n" !total !nontriv;
  Printf.printf "SUMMARY codec lines=%d mismatches=%d failures=%d kinds=%s\n" !total !mism !fails
    (String.concat "," (List.map (fun (k, v) -> k ^ ":" ^ string_of_int v) ks))
