(* chk_cl.ml — extracted client-property checkers applied to the implementation's outputs. *)
open Model
open Conv

let step (cfg : cl_cfg) (s : cl_state) (ev : cl_event) (iouts : (int * string) list) : (string * string) list = []
