(* chk_cl.ml — extracted client-property checkers applied to the implementation's outputs. *)
open Model
open Conv

let res_of (r : string) : cres =
  match r with
  | "ok" -> ROk | "err:timeout" -> RTimeout | "err:noretries" -> RNoRetries | "err:rejected" -> RRejected
  | "err:notregistered" -> RNotRegistered | "err:state" -> RState | "err:invalid" -> RInvalid
  | "err:cancelled" -> RCancelled | _ -> ROther

let out_of (t : int) (text : string) : cl_out list =
  let nt = n_of_int t in
  match split_on ' ' text with
  | ["SN"; hx] -> [CoSn (nt, bytes_of_hex hx)]
  | ["RET"; id; r] -> (try [CoRet (nt, n_of_int (int_of_string id), res_of r)] with _ -> [])
  | "CB" :: sub :: topic :: payload :: rest ->
    let tbl = Gw_io.kv_tbl rest in
    let g k = int_of_string (Hashtbl.find tbl k) in
    (try [CoCb (nt, n_of_int (int_of_string sub), bytes_of_hex topic, bytes_of_hex payload, n_of_int (g "qos"),
                g "retain" <> 0, g "dup" <> 0, n_of_int (g "mid"))] with _ -> [])
  | ["EXIT"] -> [CoExit nt]
  | _ -> []

let step1 (cfg : cl_cfg) (s : cl_state) (ev : cl_event) (os : cl_out list) (m : cmon) : (string * string) list * cmon =
  let tag p l = List.map (fun c -> (p, "clause" ^ string_of_int (int_of_n c))) l in
  let (m', mf) = cmon_step cfg s ev os m in
  (tag "C23" (chk_C23c os) @ tag "C27" (chk_C27 cfg s ev os) @ tag "C27" (chk_C27b cfg s ev os) @ tag "C17" (chk_C17 cfg s ev os) @ tag "C31" (chk_C31c cfg os)
   @ List.map (fun c -> let c = int_of_n c in ("C06", if c < 10 then Printf.sprintf "clause%d class=same-id-both-directions" c else Printf.sprintf "clause%d" (c - 10))) (chk_C06c cfg s ev os)
   @ List.map (fun (p, c) -> (Printf.sprintf "C%02d" (int_of_n p), Printf.sprintf "clause%d" (int_of_n c))) mf
   (* C19 at the client's use of the transactions: a call that is overdue (28,1) sits on a retry / timed
      transaction that outlived its budget - something that is not progress restarted it *)
   @ List.concat_map (fun (p, c) -> if int_of_n p = 28 && int_of_n c = 1 then [("C19", "client-exchange-outlives-its-budget")] else []) mf, m')

(* The checkers run on the implementation's outputs and on the model's own outputs (each with its
   own monitor): "model=fails" marks a failure that the faithful model shows in the same step (a
   refutation theorem's situation, the only thing a recorded finding may describe). *)
let step (cfg : cl_cfg) (s : cl_state) (ev : cl_event) (iouts : (int * string) list) (mouts : cl_out list) ((m, mm) : cmon * cmon)
  : (string * string) list * (cmon * cmon) =
  let (fi, m') = step1 cfg s ev (List.concat_map (fun (t, x) -> out_of t x) iouts) m in
  let (fm, mm') = step1 cfg s ev mouts mm in
  (List.map (fun (p, c) -> (p, c ^ (if List.mem (p, c) fm then " model=fails" else " model=holds"))) fi, (m', mm'))
