(* gen_txn.ml — generator of transaction histories (C18/C19): retry counts 0-5, delays 1 ms - 10 s,
   progress / completion / cancellation at offsets around every timer deadline. *)
open Model
open Conv
open Gen_gw

let run (seed : int) (n : int) (out : string) =
  seed_rng seed;
  let oc = if out = "-" then stdout else open_out out in
  for idx = 0 to n - 1 do
    let retry = rnd 4 > 0 in
    let delay = pick [1; 7; 100; 250; 1000; 1500; 10000] in
    let count = rnd 6 in
    Printf.fprintf oc "H %d kind=%s delay=%d count=%d\n" idx (if retry then "retry" else "timed") delay count;
    let s = ref (txn_new retry (n_of_int delay) (n_of_int count)) in
    let emit text =
      let ev = Cmp_txn.parse_event text in
      (* never let an advance end exactly on a timer deadline (the driver would wake at that instant) *)
      let ok = (match ev with
          | EvAdv d ->
            let target = int_of_n !s.t_now + int_of_n d in
            let rec hits (st : txn_state) k =
              if k > 40 then false else
                match st.t_timer with
                | Some dl when int_of_n dl = target -> true
                | Some dl when int_of_n dl < target ->
                  let (st', _) = txn_step st (EvAdv (n_of_int (int_of_n dl - int_of_n st.t_now))) in hits st' (k + 1)
                | _ -> false in
            not (hits !s 0)
          | _ -> true) in
      if ok then begin s := fst (txn_step !s ev); Printf.fprintf oc "E %s\n" text; true end else false in
    let adv d = let rec go d k = if k < 5 && not (emit (Printf.sprintf "ADV %d" (max 1 d))) then go (d + 1) (k + 1) in go d 0 in
    if retry && rnd 8 > 0 then ignore (emit (Printf.sprintf "PROCEED %d" (1 + rnd 5)));
    let len = 2 + rnd 14 in
    for _ = 1 to len do
      match pickw [ (30, `Adv); (12, `Edge); (10, `Proceed); (8, `Success); (8, `Fail); (4, `CbFail); (4, `Cancel) ] with
      | `Adv -> adv (pick [delay - 1; delay + 1; delay / 2 + 1; 2 * delay + 1; (count + 1) * delay + 3; 1 + rnd 50])
      | `Edge -> (match !s.t_timer with
          | Some dl -> adv (max 1 (int_of_n dl - int_of_n !s.t_now + pick [-1; 1; 2]))
          | None -> adv (1 + rnd 20))
      | `Proceed -> if retry then ignore (emit (Printf.sprintf "PROCEED %d" (1 + rnd 5)))
      | `Success -> ignore (emit "SUCCESS")
      | `Fail -> ignore (emit (Printf.sprintf "FAIL %s" (pick ["x"; "y"; "z"])))
      | `CbFail -> ignore (emit (Printf.sprintf "CBFAIL %d" (rnd 2)))
      | `Cancel -> ignore (emit "CANCEL")
    done;
    output_string oc "END\n"
  done;
  if out <> "-" then close_out oc
