(* gen_e2e.ml — model-guided generator of end-to-end histories: API programs of the client library
   against one gateway session and the specification broker over a (possibly lossy) link.
   The composed model is stepped alongside so that programs are sensible (connect first, publish
   on registered topics, broker messages on subscribed topics, ...) and so that histories in
   which two timers of the system fall on one virtual instant are not produced. *)
open Model
open Conv
open Gen_gw   (* rnd, pick, pickw, coin, bs, nn, hex_of_bytes ... and the PRNG state *)

let names = ["a/b"; "t/1"; "dev/x/data"; "q"; "a/b/c"; "n1"]
let filters = ["a/b"; "a/#"; "t/+"; "dev/x/data"; "#"; "q"]
let shorts = ["ab"; "xy"]

let deadlines (y : sys) : int list =
  let c = y.y_cl and g = y.y_gw in
  (List.map (fun t -> int_of_n t.ctm_at) c.cl_timers) @
  (match (if c.cl_exited then None else c.cl_cancelled) with Some t -> [int_of_n t] | None -> []) @
  (if g.gw_ended then [] else
     (match g.gw_ending with Some t -> [int_of_n t] | None -> List.map (fun t -> int_of_n t.tm_at) g.gw_timers))

let has_dup (l : int list) : bool =
  let s = List.sort compare l in
  let rec go = function a :: (b :: _ as r) -> a = b || go r | _ -> false in go s

type eprofile = { e_lossy : int (* 0 lossless, 1 within budget, 2 heavy *); e_sleep : int; e_burst : int; e_auth : bool }

let gen_history (idx : int) (prof : eprofile) (oc : out_channel) =
  let rcount = pick [1; 2; 2; 3] in
  let gdelay = pick [1300; 1700] and cdelay = pick [1000; 1100] in
  let auth = prof.e_auth in
  let predef = if coin () then "~" else "x2a:1=" ^ hex_of_bytes (bs "p/1") ^ ",2=" ^ hex_of_bytes (bs "p/2") in
  let will = rnd 4 = 0 in
  let nfault = (match prof.e_lossy with 0 -> 0 | 1 -> 1 + rnd rcount | _ -> rcount + 1 + rnd 4) in
  let mk_faults () =
    if prof.e_lossy = 0 then "-" else
      String.init (6 + rnd 30) (fun _ -> 'd') in
  let c2g = Bytes.of_string (mk_faults ()) and g2c = Bytes.of_string (mk_faults ()) in
  if prof.e_lossy > 0 then
    for _ = 1 to nfault do
      let b = if coin () then c2g else g2c in
      let k = 2 + rnd (max 1 (Bytes.length b - 2)) in     (* the connect exchange is left alone *)
      if k < Bytes.length b then Bytes.set b k (if rnd 3 = 0 then '2' else 'x')
    done;
  let hline = Printf.sprintf
      "H %d GW auth=%d user=- pass=- rdelay=%d rcount=%d predef=%s CL cid=%s user=%s pass=%s keepalive=%d ctimeout=5000 rdelay=%d rcount=%d clean=1 will=%s wmsg=%s wqos=%d wretain=0 predef=%s LINK c2g=%s g2c=%s"
      idx (if auth then 1 else 0) gdelay rcount predef (hex_of_bytes (bs "cl1"))
      (if auth then hex_of_bytes (bs "u1") else "-") (if auth then hex_of_bytes (bs "pw") else "x")
      60000 (* the keep-alive loop of the client (not in the client model) never ticks within a history *) cdelay rcount (if will then hex_of_bytes (bs "will/t") else "-") (hex_of_bytes (bs "bye")) (rnd 2) predef
      (Bytes.to_string c2g) (Bytes.to_string g2c) in
  output_string oc (hline ^ "\n");
  let cfg = E2e_io.parse_cfg (List.tl (List.tl (split_on ' ' hline))) in
  let y = ref (sys_init cfg) in
  let next_call = ref 1 in
  (* an advance must not end exactly on a deadline, and no two deadlines may coincide on the way *)
  let rec ambiguous (st : sys) (target : int) (fuel : int) : bool =
    if fuel = 0 then true else
    match List.sort compare (deadlines st) with
    | [] -> false
    | m :: rest ->
      if m > target then false
      else if m = target then true
      else if (match rest with m2 :: _ -> m2 = m | [] -> false) then true
      else
        let now = max (int_of_n st.y_gw.gw_now) (int_of_n st.y_cl.cl_now) in
        let (st', _) = sys_step cfg st (SAdv (n_of_int (max 1 (m - now)))) in
        ambiguous st' target (fuel - 1) in
  let emit (text : string) : bool =
    let ev = E2e_io.parse_event text in
    let ok_adv = (match ev with
        | SAdv d -> not (ambiguous !y (max (int_of_n !y.y_gw.gw_now) (int_of_n !y.y_cl.cl_now) + int_of_n d) 400)
        | _ -> true) in
    if not ok_adv then false else begin
      let (y', _) = sys_step cfg !y ev in
      if has_dup (deadlines y') then false else begin y := y'; output_string oc ("E " ^ text ^ "\n"); true end end in
  let emit_or_skip text = if not (emit text) then (ignore (emit "ADV 1"); ignore (emit text)) in
  let adv d = let rec go d k = if k > 8 then () else if not (emit (Printf.sprintf "ADV %d" d)) then go (d + 1 + rnd 3) (k + 1) in go (max 1 d) 0 in
  (* one history in four runs its API calls over the synchronous link (CALLS): every write of the client returns only
     after all it causes has settled - the schedule in which the peer is faster than the caller.  The composed model
     runs every event to quiescence, so its outputs do not depend on that schedule; race-free code does not either *)
  let sync_calls = rnd 4 = 0 in
  (* likewise for the gateway: one history in four delivers its broker messages with the gateway session's writes
     synchronous (BPUBS): the client's answer is handled by the session before the writer continues *)
  let sync_bpubs = rnd 4 = 0 in
  let call a = let id = !next_call in incr next_call;
    emit_or_skip (Printf.sprintf "%s %d %s" (if sync_calls then "CALLS" else "CALL") id a) in
  let hx s = hex_of_bytes (bs s) in
  (* time for an exchange to finish, retransmissions included *)
  let settle () = if prof.e_lossy = 0 then adv (1 + rnd 20) else adv ((rcount + 1) * (max gdelay cdelay) * pick [1; 1; 2] + 7 + rnd 40) in
  let registered () = List.map (fun (nm, _) -> String.concat "" (List.map (fun x -> String.make 1 (Char.chr (int_of_n x))) nm)) !y.y_cl.cl_registered in
  let payload () = let l = pick [0; 1; 3; 20] in hex_of_bytes (List.init l (fun k -> nn ((k * 5 + l) land 255))) in
  let subs () = List.map (fun (_, (route, _)) -> route) !y.y_cl.cl_handlers in
  (* a conforming broker does not reuse a packet identifier that may still be in use: within a history every QoS 1/2
     message of the broker gets a new one (a sleeping client can leave an exchange open for a long time) *)
  let next_bmid = ref (500 + rnd 200) in
  let fresh_bmid () = let m = !next_bmid in next_bmid := m + 1 + rnd 3; m in
  let bpub () =
    (* a message of another client on a topic some subscription of ours matches *)
    match subs () with
    | [] -> ()
    | l ->
      let route = pick l in
      (* a filter ending in /# also matches its parent level: now and then the message is on the parent *)
      let mk_name () =
        let lvls = (match List.rev route with
            | last :: (_ :: _ as rest) when last = [nn 35] && rnd 4 = 0 -> List.rev rest
            | _ -> route) in
        join (List.map (fun lv -> if lv = [nn 43] then bs (pick ["x"; "y"]) else if lv = [nn 35] then bs ("n" ^ string_of_int (rnd 4)) else lv) lvls) in
      let name0 = mk_name () in
      let same = coin () in
      let q = pickw [ (3, 0); (4, 1); (4, 2) ] in
      let n = if rnd 100 < prof.e_burst then 2 + rnd 2 else 1 in
      let spec k = Printf.sprintf "PUBLISH dup=0 qos=%d retain=0 topic=%s mid=%d payload=%s" q (hex_of_bytes (if same then name0 else mk_name ()))
          (if q = 0 then 0 else fresh_bmid ()) (hex_of_bytes (List.init (1 + k) (fun j -> nn ((j * 7 + k + rnd 50) land 255)))) in
      if n > 1 && prof.e_lossy = 0 && coin () then
        (* a true burst: the gateway handles all of them before the client's first answer arrives *)
        emit_or_skip ("BBURST " ^ String.concat " | " (List.init n (fun k -> spec (k + 1))))
      else
        for k = 1 to n do emit_or_skip ((if sync_bpubs then "BPUBS " else "BPUB ") ^ spec k) done;
      (* within the fault budget: every other time wait past the deadline by which the monitor wants the
         message delivered and acknowledged (C16), before the program goes on (and may disconnect) *)
      if prof.e_lossy > 0 && nfault <= rcount && coin () then adv (4 * (rcount + 1) * (max gdelay cdelay) + 1100 + rnd 200) in
  call "CONNECT"; settle ();
  let len = 3 + rnd 14 in
  let k = ref 0 in
  while !k < len && not !y.y_cl.cl_exited && !y.y_cl.cl_cancelled = None && not !y.y_gw.gw_ended do
    incr k;
    (match !y.y_cl.cl_st with
     | Active ->
       (match pickw [ (14, `Register); (22, `Publish); (16, `Subscribe); (6, `Unsub); (5, `Ping); (18, `Bpub);
                      (prof.e_sleep, `Sleep); (6, `PubPre); (4, `SubPre); (2, `Adv) ] with
        | `Register -> call ("REGISTER " ^ hx (pick names))
        | `Publish ->
          let t = (match rnd 4 with 0 -> pick shorts | _ -> (match registered () with [] -> pick names | l -> pick l)) in
          call (Printf.sprintf "PUBLISH %s %d %d %s" (hx t) (pickw [ (3, 0); (4, 1); (4, 2); (1, 3) ]) (rnd 2) (payload ()))
        | `Subscribe -> call (Printf.sprintf "SUBSCRIBE %s %d" (hx (if rnd 5 = 0 then pick shorts else pick filters)) (rnd 3))
        | `Unsub -> call ("UNSUB " ^ hx (pick filters))
        | `Ping -> call "PING"
        | `Bpub -> bpub ()
        | `Sleep -> call (Printf.sprintf "SLEEP %d" (pick [2000; 3000; 7000]))
        | `PubPre -> if predef <> "~" then call (Printf.sprintf "PUBPRE %d %d 0 %s" (pick [1; 2]) (rnd 3) (payload ()))
        | `SubPre -> if predef <> "~" then call (Printf.sprintf "SUBPRE %d %d" (pick [1; 2]) (rnd 3))
        | `Adv -> adv (100 + rnd 3000))
     | Awake when not (List.exists (fun (_, o) -> match o with CxSleep _ -> true | _ -> false) (nmap_to_list !y.y_cl.cl_objs)) ->
       (* Sleep has returned: the client is awake and idle, the gateway regards it as asleep.  The next sleep
          cycle (Sleep from the awake state sends nothing), messages meanwhile, a Disconnect, or calls that the
          monitor does not judge in this state (their answers are queued by the gateway) *)
       (match pickw [ (8, `Sleep); (4, `Bpub); (3, `Adv); (2, `Disconnect); (1, `Ping); (1, `Publish) ] with
        | `Sleep -> call (Printf.sprintf "SLEEP %d" (pick [1000; 2000; 3000; 7000]))
        | `Bpub -> bpub ()
        | `Adv -> adv (100 + rnd 3000)
        | `Disconnect -> call "DISCONNECT"
        | `Ping -> call "PING"
        | `Publish -> call (Printf.sprintf "PUBLISH %s %d 0 %s" (hx (pick shorts)) (rnd 2) (payload ())))
     | Asleep | Awake ->
       (* the Sleep call blocks until the wake-up cycle is over: messages arrive meanwhile, time passes *)
       (match rnd 3 with 0 -> bpub () | _ -> adv (500 + rnd 3000))
     | Disconnected -> if rnd 3 = 0 then (call "CONNECT") else adv (50 + rnd 500));
    settle ()
  done;
  if !y.y_cl.cl_st = Active && not !y.y_cl.cl_exited && !y.y_cl.cl_cancelled = None && rnd 4 > 0 then (call "DISCONNECT"; settle ());
  adv (1200 + rnd 300);
  (* past the deadline by which the monitor expects every broker message delivered and acknowledged (C16) *)
  if prof.e_lossy > 0 && nfault <= rcount then adv (4 * (rcount + 1) * (max gdelay cdelay) + 1100 + rnd 300);
  output_string oc "END\n"

let profiles = [|
  { e_lossy = 0; e_sleep = 0; e_burst = 0; e_auth = false };
  { e_lossy = 0; e_sleep = 8; e_burst = 30; e_auth = false };
  { e_lossy = 1; e_sleep = 0; e_burst = 0; e_auth = false };
  { e_lossy = 0; e_sleep = 2; e_burst = 10; e_auth = true };
  { e_lossy = 2; e_sleep = 0; e_burst = 0; e_auth = false };
  { e_lossy = 1; e_sleep = 3; e_burst = 10; e_auth = false };
|]

let run (seed : int) (n : int) (out : string) =
  seed_rng seed;
  let oc = if out = "-" then stdout else open_out out in
  for idx = 0 to n - 1 do gen_history idx profiles.(idx mod Array.length profiles) oc done;
  if out <> "-" then close_out oc
