(* cmp_cl.ml — client-library correspondence: the extracted model (cl_step) against the trace
   of the real client.Client under drv_client, event by event; first divergence per history. *)
open Model
open Conv

type co = { t : int; text : string }

let parse_impl (path : string) : (int, (string * co list) list * string list) Hashtbl.t =
  let tbl = Hashtbl.create 1024 in
  let cur = ref None in
  let flush_cur () = match !cur with
    | Some (idx, evs, xs) -> Hashtbl.replace tbl idx (List.rev_map (fun (e, os) -> (e, List.rev os)) evs, List.rev xs)
    | None -> () in
  List.iter (fun line ->
      match split_on ' ' line with
      | ["H"; idx] -> flush_cur (); cur := Some (int_of_string idx, [], [])
      | "E" :: _ :: rest -> (match !cur with Some (i, evs, xs) -> cur := Some (i, (String.concat " " rest, []) :: evs, xs) | None -> ())
      | "O" :: t :: rest ->
        (match !cur with
         | Some (i, (e, os) :: evs, xs) -> cur := Some (i, (e, { t = int_of_string t; text = String.concat " " rest } :: os) :: evs, xs)
         | _ -> ())
      | "X" :: rest -> (match !cur with Some (i, evs, xs) -> cur := Some (i, evs, String.concat " " rest :: xs) | None -> ())
      | _ -> ())
    (read_lines path);
  flush_cur ();
  tbl

let kind_of (text : string) : string =
  match split_on ' ' text with
  | ["SN"; hx] ->
    (match read_dgram (bytes_of_hex hx) with
     | Ok p -> "SN:" ^ (match split_on ' ' (Ptext.text p) with k :: _ -> k | [] -> "?")
     | _ -> "SN:undecodable")
  | k :: _ -> k
  | [] -> "?"

(* the driver writes the outputs of one virtual instant sorted by text when time passes *)
let is_ret (o : co) = String.length o.text >= 3 && (String.sub o.text 0 3 = "RET" || o.text = "EXIT")
let canon (is_adv : bool) (l : co list) : co list =
  if is_adv then List.stable_sort (fun a b -> compare (a.t, a.text) (b.t, b.text)) l
  else
    (* one instant: datagrams and callbacks in program order; API returns and EXIT come from
       different goroutines waking up, their order is not defined *)
    (* ... and handlers run in goroutines of their own, after the datagrams of the step *)
    let is_cb (o : co) = String.length o.text >= 2 && String.sub o.text 0 2 = "CB" in
    List.filter (fun o -> not (is_ret o) && not (is_cb o)) l @
    List.stable_sort (fun a b -> compare a.text b.text) (List.filter is_cb l) @
    List.stable_sort (fun a b -> compare a.text b.text) (List.filter is_ret l)

let eqv (s : cl_state) (m : co) (im : co) : bool =
  m.t = im.t &&
  (m.text = im.text ||
   (match split_on ' ' m.text, split_on ' ' im.text with
    | "RET" :: id1 :: ["err:cancelled"], "RET" :: id2 :: [r] ->
      (* interrupted by the termination: the error is whatever terminated the client *)
      id1 = id2 && String.length r >= 4 && String.sub r 0 4 = "err:"
    | "CB" :: _ :: rest1, "CB" :: sub2 :: rest2 ->
      (* several matching subscriptions: sync.Map order picks the handler *)
      rest1 = rest2 &&
      (match rest1 with
       | topic :: _ -> List.mem (int_of_string sub2) (List.map int_of_n (handle_set s.cl_handlers (bytes_of_hex topic)))
       | [] -> false)
    | _ -> false))

let clip s = if String.length s > 400 then String.sub s 0 400 ^ "..." else s
let show (o : co) = Printf.sprintf "%d %s" o.t o.text

let run (hist : string) (impl : string) =
  let hs = Cl_io.read_histories hist in
  let itbl = parse_impl impl in
  let nh = ref 0 and nev = ref 0 and nout = ref 0 and ndiv = ref 0 and nfail = ref 0 and nside = ref 0 and nexcl = ref 0 in
  let kinds = Hashtbl.create 64 in
  let bump k = Hashtbl.replace kinds k (1 + (try Hashtbl.find kinds k with Not_found -> 0)) in
  let nontriv = Hashtbl.create 1024 in
  List.iter (fun (hst : Cl_io.chistory) ->
      incr nh;
      let diverged = ref false in
      let mismatch kind k detail =
        if not !diverged then begin
          diverged := true; incr ndiv;
          Printf.printf "MISMATCH %s h=%d e=%d :: %s\n" kind hst.cidx k (clip detail) end in
      let fail prop clause k detail =
        incr nfail; Printf.printf "FAIL %s %s h=%d e=%d :: %s\n" prop clause hst.cidx k (clip detail) in
      (match (try Some (Hashtbl.find itbl hst.cidx) with Not_found -> None) with
       | None -> mismatch "MISSING-HISTORY" 0 "history absent from the implementation trace"
       | Some (ievs, xs) ->
         List.iter (fun x ->
             let w = (match split_on ' ' x with w :: _ -> w | [] -> "?") in
             mismatch w 0 x;
             if w = "PANIC" then fail "C25" "client-panics" 0 x;
             if w = "LEAK" then fail "C28" "goroutine-leak-or-hang" 0 x) xs;
         (* the keep-alive wrapper of the client model: it is cl_step itself when KeepAlive = 0 *)
         let ks = ref ka_init in
         let s = ref cl_init in
         let cm = ref (cmon_init, cmon_init) in
         let km = ref (kmon_init, kmon_init) in
         let calls = Hashtbl.create 16 in      (* API calls of this history: identifier -> kind *)
         let excluded = ref false in
         (* C17 clause 5: Publish (QoS 1/2) calls to which the implementation returned an error in a step in which the
            model's exchange simply went on *)
         let early = ref [] in
         let ievs = Array.of_list ievs in
         List.iteri (fun k (text, ev) ->
             incr nev;
             let is_adv = (match ev with CAdv _ -> true | _ -> false) in
             let (ks', kouts) = ka_step hst.ccfg !ks ev in
             let (s', outs) = (ks'.ka_cl, ko_cl kouts) in
             (* the history leaves the sequential keep-alive model (ClKeepalive.v): nothing after this point
                is compared or judged *)
             if ks'.ka_excl && not !excluded then begin excluded := true; incr nexcl end;
             if !excluded then begin ks := ks'; s := s' end else begin
             (* the executable side conditions of the theorems (C17, C28): steps that fail them are outside the theorems *)
             if not (adv_ok hst.ccfg !s ev && cl_fresh !s ev && ka_user_ok !ks ev && ka_clock_ok hst.ccfg !ks ev) then incr nside;
             let mouts = canon is_adv (List.map (fun o -> let (t, x) = Cl_io.out_text o in { t; text = x }) outs) in
             let iouts = canon is_adv (if k < Array.length ievs then snd ievs.(k) else []) in
             if k >= Array.length ievs then mismatch "MISSING-EVENT" k ("event not executed by the implementation: " ^ text);
             nout := !nout + List.length iouts;
             List.iter (fun (o : co) -> bump (kind_of o.text)) iouts;
             if iouts <> [] then Hashtbl.replace nontriv (hst.chline ^ text ^ String.concat "|" (List.map show iouts)) ();
             let (fails, cm') = Chk_cl.step hst.ccfg !s ev (List.map (fun (o : co) -> (o.t, o.text)) iouts) outs !cm in
             cm := cm';
             (* C33: the keep-alive monitor, on the implementation's outputs and on the model's own *)
             let ios_of l = List.concat_map (fun (o : co) -> Chk_cl.out_of o.t o.text) l in
             let (kmi, kfi) = kmon_step hst.ccfg !ks ks' kouts ev (ios_of iouts) (fst !km) in
             let (kmm, kfm) = kmon_step hst.ccfg !ks ks' kouts ev outs (snd !km) in
             km := (kmi, kmm);
             (match ev with CCall (id, a) -> Hashtbl.replace calls (int_of_n id) a | _ -> ());
             (* clause 3: which kind of call failed (the recorded finding is about Ping calls of the API) *)
             let failed_victims = List.concat_map (fun (o : co) ->
                 match split_on ' ' o.text with
                 | ["RET"; id; r] when r <> "ok" && List.exists (fun v -> int_of_n v = int_of_string id) ks'.ka_victims ->
                   (try [Hashtbl.find calls (int_of_string id)] with Not_found -> [])
                 | _ -> []) iouts in
             let vclass = if failed_victims <> [] && List.for_all (fun a -> a = APing) failed_victims then " class=api-ping-call"
               else " class=other-call" in
             let kfails = List.map (fun (p, c) ->
                 (Printf.sprintf "C%02d" (int_of_n p),
                  Printf.sprintf "clause%d%s%s" (int_of_n c) (if int_of_n c = 3 then vclass else "")
                    (if List.mem (p, c) kfm then " model=fails" else " model=holds"))) kfi in
             List.iter (fun (p, c) ->
                 fail p c k (Printf.sprintf "event=%s impl=[%s]" text (String.concat "; " (List.map show iouts)))) (fails @ kfails);
             (* C17 "returns nil exactly when the gateway acknowledged within the retry budget", the direction chk_C17
                does not state: the implementation gave a Publish (QoS 1/2) call up with an error while the model's
                exchange went on, and the acknowledgement then arrived within the budget (the model returns nil).  The
                expectation is the model's own behaviour: the clause cannot fail on the model *)
             let pending_publish id = List.exists (fun (_, o) -> match o with
                 | CxRetry (call, kind, _, _, _, _, _) -> int_of_n call = id && (int_of_n kind = 3 || int_of_n kind = 4)
                 | _ -> false) (nmap_to_list !s.cl_objs) in
             let mrets = List.concat_map (fun o -> match o with CoRet (_, id, r) -> [(int_of_n id, r)] | _ -> []) outs in
             List.iter (fun (o : co) ->
                 match split_on ' ' o.text with
                 | ["RET"; id; r] when r <> "ok" ->
                   let id = int_of_string id in
                   if pending_publish id && not (List.mem_assoc id mrets) then early := id :: !early
                 | _ -> ()) iouts;
             List.iter (fun (id, r) ->
                 if r = ROk && List.mem id !early then begin
                   early := List.filter (fun j -> j <> id) !early;
                   fail "C17" "clause5 class=gave-up-before-the-acknowledgement model=holds" k
                     (Printf.sprintf "event=%s call=%d: the gateway's acknowledgement arrived within the budget (the model returns nil here); the implementation had returned an error earlier" text id) end) mrets;
             let rec cmp ms is =
               match ms, is with
               | [], [] -> ()
               | m :: ms', i :: is' ->
                 if eqv !s m i then cmp ms' is'
                 else mismatch (kind_of (if m.text = i.text then "TIME" else i.text)) k
                     (Printf.sprintf "model=[%s] impl=[%s] event=%s" (show m) (show i) text)
               | m :: _, [] -> mismatch ("MISSING " ^ kind_of m.text) k (Printf.sprintf "model=[%s] impl=nothing event=%s" (show m) text)
               | [], i :: _ -> mismatch ("EXTRA " ^ kind_of i.text) k (Printf.sprintf "model=nothing impl=[%s] event=%s" (show i) text) in
             cmp mouts iouts;
             ks := ks'; s := s' end)
           hst.cevents))
    hs;
  let ks = Hashtbl.fold (fun k v acc -> (k, v) :: acc) kinds [] |> List.sort compare in
  Printf.printf "STAT evaluations=%d nontrivial=%d histories=%d outputs=%d side_condition_failed_steps=%d outside_keepalive_model=%d\n" !nev (Hashtbl.length nontriv) !nh !nout !nside !nexcl;
  Printf.printf "SUMMARY client histories=%d events=%d outputs=%d diverging=%d failures=%d kinds=%s\n" !nh !nev !nout !ndiv !nfail
    (String.concat "," (List.map (fun (k, v) -> k ^ ":" ^ string_of_int v) ks))
