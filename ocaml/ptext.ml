(* ptext.ml — canonical text form of MQTT-SN packets (same as harness/pkttext). *)
open Model
open Conv

let b2i b = if b then 1 else 0
let i = int_of_n
let h = hex_of_bytes

let text (p : packet) : string =
  match p with
  | Advertise (g, d) -> Printf.sprintf "Advertise gw=%d dur=%d" (i g) (i d)
  | SearchGw r -> Printf.sprintf "SearchGw radius=%d" (i r)
  | GwInfo (g, a) -> Printf.sprintf "GwInfo gw=%d addr=%s" (i g) (h a)
  | Auth (r, m, d) -> Printf.sprintf "Auth reason=%d method=%s data=%s" (i r) (h m) (h d)
  | Connect (w, c, pr, d, cid) ->
    Printf.sprintf "Connect will=%d clean=%d proto=%d dur=%d cid=%s" (b2i w) (b2i c) (i pr) (i d) (h cid)
  | Connack rc -> Printf.sprintf "Connack rc=%d" (i rc)
  | WillTopicReq -> "WillTopicReq"
  | WillTopic (q, r, t) -> Printf.sprintf "WillTopic qos=%d retain=%d topic=%s" (i q) (b2i r) (h t)
  | WillMsgReq -> "WillMsgReq"
  | WillMsg m -> Printf.sprintf "WillMsg msg=%s" (h m)
  | Register (ti, mi, nm) -> Printf.sprintf "Register tid=%d mid=%d name=%s" (i ti) (i mi) (h nm)
  | Regack (ti, mi, rc) -> Printf.sprintf "Regack tid=%d mid=%d rc=%d" (i ti) (i mi) (i rc)
  | Publish (dup, q, r, tit, ti, mi, d) ->
    Printf.sprintf "Publish dup=%d qos=%d retain=%d tit=%d tid=%d mid=%d data=%s"
      (b2i dup) (i q) (b2i r) (i tit) (i ti) (i mi) (h d)
  | Puback (ti, mi, rc) -> Printf.sprintf "Puback tid=%d mid=%d rc=%d" (i ti) (i mi) (i rc)
  | Pubcomp mi -> Printf.sprintf "Pubcomp mid=%d" (i mi)
  | Pubrec mi -> Printf.sprintf "Pubrec mid=%d" (i mi)
  | Pubrel mi -> Printf.sprintf "Pubrel mid=%d" (i mi)
  | Subscribe (dup, q, tit, mi, ti, nm) ->
    Printf.sprintf "Subscribe dup=%d qos=%d tit=%d mid=%d tid=%d name=%s" (b2i dup) (i q) (i tit) (i mi) (i ti) (h nm)
  | Suback (q, ti, mi, rc) -> Printf.sprintf "Suback qos=%d tid=%d mid=%d rc=%d" (i q) (i ti) (i mi) (i rc)
  | Unsubscribe (tit, mi, ti, nm) ->
    Printf.sprintf "Unsubscribe tit=%d mid=%d tid=%d name=%s" (i tit) (i mi) (i ti) (h nm)
  | Unsuback mi -> Printf.sprintf "Unsuback mid=%d" (i mi)
  | Pingreq cid -> Printf.sprintf "Pingreq cid=%s" (h cid)
  | Pingresp -> "Pingresp"
  | Disconnect d -> Printf.sprintf "Disconnect dur=%d" (i d)
  | WillTopicUpd (q, r, t) -> Printf.sprintf "WillTopicUpd qos=%d retain=%d topic=%s" (i q) (b2i r) (h t)
  | WillTopicResp rc -> Printf.sprintf "WillTopicResp rc=%d" (i rc)
  | WillMsgUpd m -> Printf.sprintf "WillMsgUpd msg=%s" (h m)
  | WillMsgResp rc -> Printf.sprintf "WillMsgResp rc=%d" (i rc)

(* parse "Name k=v k=v" *)
let parse (s : string) : packet =
  let toks = split_on ' ' s in
  let kind = List.hd toks in
  let tbl = Hashtbl.create 8 in
  List.iter (fun t ->
      match String.index_opt t '=' with
      | Some k -> Hashtbl.replace tbl (String.sub t 0 k) (String.sub t (k + 1) (String.length t - k - 1))
      | None -> failwith ("bad packet token " ^ t)) (List.tl toks);
  let n k = n_of_int (int_of_string (Hashtbl.find tbl k)) in
  let b k = int_of_string (Hashtbl.find tbl k) <> 0 in
  let x k = bytes_of_hex (Hashtbl.find tbl k) in
  match kind with
  | "Advertise" -> Advertise (n "gw", n "dur")
  | "SearchGw" -> SearchGw (n "radius")
  | "GwInfo" -> GwInfo (n "gw", x "addr")
  | "Auth" -> Auth (n "reason", x "method", x "data")
  | "Connect" -> Connect (b "will", b "clean", n "proto", n "dur", x "cid")
  | "Connack" -> Connack (n "rc")
  | "WillTopicReq" -> WillTopicReq
  | "WillTopic" -> WillTopic (n "qos", b "retain", x "topic")
  | "WillMsgReq" -> WillMsgReq
  | "WillMsg" -> WillMsg (x "msg")
  | "Register" -> Register (n "tid", n "mid", x "name")
  | "Regack" -> Regack (n "tid", n "mid", n "rc")
  | "Publish" -> Publish (b "dup", n "qos", b "retain", n "tit", n "tid", n "mid", x "data")
  | "Puback" -> Puback (n "tid", n "mid", n "rc")
  | "Pubcomp" -> Pubcomp (n "mid")
  | "Pubrec" -> Pubrec (n "mid")
  | "Pubrel" -> Pubrel (n "mid")
  | "Subscribe" -> Subscribe (b "dup", n "qos", n "tit", n "mid", n "tid", x "name")
  | "Suback" -> Suback (n "qos", n "tid", n "mid", n "rc")
  | "Unsubscribe" -> Unsubscribe (n "tit", n "mid", n "tid", x "name")
  | "Unsuback" -> Unsuback (n "mid")
  | "Pingreq" -> Pingreq (x "cid")
  | "Pingresp" -> Pingresp
  | "Disconnect" -> Disconnect (n "dur")
  | "WillTopicUpd" -> WillTopicUpd (n "qos", b "retain", x "topic")
  | "WillTopicResp" -> WillTopicResp (n "rc")
  | "WillMsgUpd" -> WillMsgUpd (x "msg")
  | "WillMsgResp" -> WillMsgResp (n "rc")
  | _ -> failwith ("unknown packet kind " ^ kind)
