(* gw_io.ml — gateway history/trace text formats (harness/FORMATS.md). *)
open Model
open Conv

let b2i b = if b then 1 else 0
let i = int_of_n
let h = hex_of_bytes

let kv_tbl (toks : string list) =
  let tbl = Hashtbl.create 16 in
  List.iter (fun t ->
      match String.index_opt t '=' with
      | Some k -> Hashtbl.replace tbl (String.sub t 0 k) (String.sub t (k + 1) (String.length t - k - 1))
      | None -> ()) toks;
  tbl

let mq_spec (m : mq_pkt) : string =
  match m with
  | MqConnect c ->
    Printf.sprintf "CONNECT clean=%d keepalive=%d cid=%s will=%d wqos=%d wretain=%d wtopic=%s wmsg=%s uflag=%d user=%s pflag=%d pass=%s"
      (b2i c.c_clean) (i c.c_keepalive) (h c.c_cid) (b2i c.c_will) (i c.c_wqos) (b2i c.c_wretain)
      (* wire projection: paho writes will topic/message, user and password only when their flag is set *)
      (h (if c.c_will then c.c_wtopic else [])) (h (if c.c_will then c.c_wmsg else []))
      (b2i c.c_uflag) (h (if c.c_uflag then c.c_user else [])) (b2i c.c_pflag) (h (if c.c_pflag then c.c_pass else []))
  | MqConnack (sp, rc) -> Printf.sprintf "CONNACK sp=%d rc=%d" (b2i sp) (i rc)
  | MqPublish (dup, q, r, t, mid, pl) ->
    (* wire projection: the packet identifier is only present when QoS > 0 *)
    Printf.sprintf "PUBLISH dup=%d qos=%d retain=%d topic=%s mid=%d payload=%s" (b2i dup) (i q) (b2i r) (h t)
      (if i q = 0 then 0 else i mid) (h pl)
  | MqPuback mid -> Printf.sprintf "PUBACK mid=%d" (i mid)
  | MqPubrec mid -> Printf.sprintf "PUBREC mid=%d" (i mid)
  | MqPubrel mid -> Printf.sprintf "PUBREL mid=%d" (i mid)
  | MqPubcomp mid -> Printf.sprintf "PUBCOMP mid=%d" (i mid)
  | MqSubscribe (mid, dup, fs) ->
    Printf.sprintf "SUBSCRIBE mid=%d dup=%d filters=%s" (i mid) (b2i dup)
      (String.concat "," (List.map (fun (f, q) -> h f ^ ":" ^ string_of_int (i q)) fs))
  | MqSuback (mid, codes) -> Printf.sprintf "SUBACK mid=%d codes=%s" (i mid) (h codes)
  | MqUnsubscribe (mid, fs) ->
    Printf.sprintf "UNSUBSCRIBE mid=%d filters=%s" (i mid) (String.concat "," (List.map h fs))
  | MqUnsuback mid -> Printf.sprintf "UNSUBACK mid=%d" (i mid)
  | MqPingreq -> "PINGREQ"
  | MqPingresp -> "PINGRESP"
  | MqDisconnect -> "DISCONNECT"

let parse_mq (toks : string list) : mq_pkt =
  let tbl = kv_tbl (List.tl toks) in
  let n k = n_of_int (int_of_string (Hashtbl.find tbl k)) in
  let b k = int_of_string (Hashtbl.find tbl k) <> 0 in
  let x k = bytes_of_hex (Hashtbl.find tbl k) in
  match List.hd toks with
  | "CONNECT" ->
    MqConnect { c_cid = x "cid"; c_clean = b "clean"; c_keepalive = n "keepalive"; c_will = b "will";
                c_wqos = n "wqos"; c_wretain = b "wretain"; c_wtopic = x "wtopic"; c_wmsg = x "wmsg";
                c_uflag = b "uflag"; c_user = x "user"; c_pflag = b "pflag"; c_pass = x "pass" }
  | "CONNACK" -> MqConnack (b "sp", n "rc")
  | "PUBLISH" -> MqPublish (b "dup", n "qos", b "retain", x "topic", n "mid", x "payload")
  | "PUBACK" -> MqPuback (n "mid")
  | "PUBREC" -> MqPubrec (n "mid")
  | "PUBREL" -> MqPubrel (n "mid")
  | "PUBCOMP" -> MqPubcomp (n "mid")
  | "SUBSCRIBE" ->
    let fs = Hashtbl.find tbl "filters" in
    MqSubscribe (n "mid", b "dup",
                 if fs = "" then [] else
                   List.map (fun e -> match split_on ':' e with
                       | [f; q] -> (bytes_of_hex f, n_of_int (int_of_string q))
                       | _ -> failwith "bad filter") (split_on ',' fs))
  | "SUBACK" -> MqSuback (n "mid", x "codes")
  | "UNSUBSCRIBE" ->
    let fs = Hashtbl.find tbl "filters" in
    MqUnsubscribe (n "mid", if fs = "" then [] else List.map bytes_of_hex (split_on ',' fs))
  | "UNSUBACK" -> MqUnsuback (n "mid")
  | "PINGREQ" -> MqPingreq
  | "PINGRESP" -> MqPingresp
  | "DISCONNECT" -> MqDisconnect
  | k -> failwith ("unknown mq packet " ^ k)

type history = { idx : int; cfg : gw_cfg; hline : string; events : (string * gw_event) list }

let parse_cfg (toks : string list) : gw_cfg =
  let tbl = kv_tbl toks in
  let opt k = let v = Hashtbl.find tbl k in if v = "-" then None else Some (bytes_of_hex v) in
  { auth_enabled = Hashtbl.find tbl "auth" <> "0"; cfg_user = opt "user"; cfg_pass = opt "pass";
    retry_delay = n_of_int (int_of_string (Hashtbl.find tbl "rdelay"));
    retry_count = n_of_int (int_of_string (Hashtbl.find tbl "rcount"));
    predefined = predef_of_string (Hashtbl.find tbl "predef");
    min_tid = n_of_int (try int_of_string (Hashtbl.find tbl "mintid") with Not_found -> 1);
    max_tid = n_of_int (try int_of_string (Hashtbl.find tbl "maxtid") with Not_found -> 65534) }

let parse_event (text : string) : gw_event =
  match split_on ' ' text with
  | ["SN"; hx] -> EvSn (bytes_of_hex hx)
  | "MQ" :: rest -> EvMq (parse_mq rest)
  | ["MQRAW"; _] -> EvMqRaw
  | ["MQEOF"] -> EvMqEof
  | ["ADV"; d] -> EvAdvance (n_of_int (int_of_string d))
  | ["SHUTDOWN"] -> EvShutdown
  | _ -> failwith ("bad event " ^ text)

let read_histories (path : string) : history list =
  let lines = read_lines path in
  let res = ref [] and cur = ref None in
  List.iter (fun line ->
      if String.length line = 0 || line.[0] = '#' then ()
      else if line.[0] = 'H' then begin
        match split_on ' ' line with
        | "H" :: idx :: rest -> cur := Some { idx = int_of_string idx; cfg = parse_cfg rest; hline = line; events = [] }
        | _ -> failwith "bad H line" end
      else if line = "END" then begin
        (match !cur with Some hst -> res := { hst with events = List.rev hst.events } :: !res | None -> ());
        cur := None end
      else if String.length line > 2 && line.[0] = 'E' then begin
        let text = String.sub line 2 (String.length line - 2) in
        match !cur with
        | Some hst -> cur := Some { hst with events = (text, parse_event text) :: hst.events }
        | None -> failwith "E line outside history" end)
    lines;
  List.rev !res

let cause_name = function
  | EcShutdown -> "shutdown" | EcClientDisconnect -> "client-disconnect" | EcBrokerEof -> "broker-eof"
  | EcBrokerGarbage -> "broker-garbage" | EcDecodeError -> "decode-error" | EcIllegalPacket -> "illegal-packet"
  | EcHandlerError -> "handler-error" | EcConnectFailed -> "connect-failed" | EcConnectTimeout -> "connect-timeout"

let out_lines (o : gw_out) : string list =
  match o with
  | OutSn (t, dg) -> [Printf.sprintf "O %d SN %s" (i t) (h dg)]
  | OutMq (t, m) -> [Printf.sprintf "O %d MQ %s" (i t) (mq_spec m)]
  | OutCancel (t, c) -> [Printf.sprintf "C %d %s" (i t) (cause_name c)]
  | OutEnd t -> [Printf.sprintf "O %d CLOSE" (i t); Printf.sprintf "O %d SNCLOSE" (i t); Printf.sprintf "O %d END" (i t)]

(* run the model on every history and write the trace *)
let run_model (hist : string) (out : string) =
  let hs = read_histories hist in
  let oc = if out = "-" then stdout else open_out out in
  List.iter (fun hst ->
      Printf.fprintf oc "H %d\n" hst.idx;
      let s = ref (init_state hst.cfg) in
      List.iteri (fun k (text, ev) ->
          Printf.fprintf oc "E %d %s\n" k text;
          let (s', outs) = gw_step hst.cfg !s ev in
          s := s';
          List.iter (fun o -> List.iter (fun l -> output_string oc l; output_char oc '\n') (out_lines o)) outs)
        hst.events;
      output_string oc "END\n")
    hs;
  if out <> "-" then close_out oc
