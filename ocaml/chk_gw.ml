(* chk_gw.ml — converts implementation observations to the checker's [obs] type and runs
   the extracted per-step property checkers. *)
open Model
open Conv

type iout = { t : int; text : string; bad : string }

let obs_of_iout (o : iout) : obs list =
  match split_on ' ' o.text with
  | ["SN"; hx] -> [ObSn (n_of_int o.t, bytes_of_hex hx)]
  | "MQ" :: rest -> [ObMq (n_of_int o.t, Gw_io.parse_mq rest, o.bad = "")]
  | "MQGARBAGE" :: _ -> [ObMqGarbage (n_of_int o.t)]
  | ["END"] -> [ObEnd (n_of_int o.t)]
  | _ -> []

(* what the glue remembers along one history besides the monitor: the classes of histories the
   partial theorems exclude (recorded findings) *)
type hstate = { mon : mon; mon6 : mon6; cid_changed : bool; pinger_outlived : bool; eof_cause : bool;
                mon6r : mon6r (* C06, the REGISTER step of broker exchanges (Checkers/ChkGw6.v) *);
                mon7 : mon7 (* C07 on the observed trace alone (Checkers/ChkGw7.v) *);
                mon_m : mon; mon6_m : mon6; mon6r_m : mon6r; mon7_m : mon7 (* the same monitors over the MODEL's own outputs, see [step] *) }
let hstate_init = { mon = mon_init; mon6 = mon6_init; cid_changed = false; pinger_outlived = false; eof_cause = false;
                    mon6r = mon6r_init; mon7 = mon7_init; mon_m = mon_init; mon6_m = mon6_init; mon6r_m = mon6r_init; mon7_m = mon7_init }

(* (property, clause) failures of one step; s' is the model's state after the step *)
let step1 (cfg : gw_cfg) (s : gw_state) (s' : gw_state) (ev : gw_event) (iouts : iout list) (os : obs list) (h : hstate)
  : (string * string) list * hstate =
  let tag p l = List.map (fun c -> (p, "clause" ^ string_of_int (int_of_n c))) l in
  let tagc p cls l = List.map (fun c -> (p, "clause" ^ string_of_int (int_of_n c) ^ cls)) l in
  let c24 =
    (* one failure per violated MQTT 3.1.1 rule, so that known findings match rule by rule *)
    List.concat_map (fun (o : iout) ->
        match split_on ' ' o.text with
        | "MQ" :: kind :: _ when o.bad <> "" ->
          List.map (fun r -> ("C24", "invalid-mqtt rule=" ^ r ^ " kind=" ^ kind)) (split_on ',' o.bad)
        | "MQGARBAGE" :: _ -> [("C24", "invalid-mqtt rule=garbage kind=?")]
        | _ -> []) iouts in
  let c24m = if c24 = [] then tag "C24" (chk_C24 os) else [] in
  let (m', mf) = mon_step cfg s s' ev os h.mon in
  let (m6', f6) = mon6_step cfg s ev os h.mon6 in
  let (m6r', f6r) = mon6r_step cfg s ev os h.mon6 h.mon6r in
  (* C04: the peer re-CONNECTed under another client ID after topic IDs were in use (cid_stable fails) *)
  let cid_changed = h.cid_changed ||
                    (s'.gw_client_id <> s.gw_client_id && (s.gw_handed_out <> [] || nmap_to_list s.gw_registered <> [])) in
  (* C34: a sleep pinger is scheduled while the session leaves the sleep or a new sleep is announced *)
  let pinger_outlived = h.pinger_outlived || c34_excluded cfg s ev in
  (* C34: the termination deadline the monitor holds was set by the broker closing the connection *)
  let eof_cause = (match m'.m_end_by with
      | None -> false
      | Some _ -> if h.mon.m_end_by = None then ev = EvMqEof else h.eof_cause) in
  let st = (match s.gw_st with Disconnected -> "disconnected" | Active -> "active" | Asleep -> "asleep" | Awake -> "awake") in
  let mfs = List.map (fun (p, c) ->
      let p = int_of_n p in
      (Printf.sprintf "C%02d" p,
       Printf.sprintf "clause%d state=%s%s" (int_of_n c) st
         (if p = 34 && pinger_outlived then " class=pinger-outlives-sleep" else ""))) mf in
  (* the two other legs of C34: the session of a vanished client ends once the broker has dropped the
     connection (13,2 after a broker close) and a half-open connect exchange ends it (10,1) *)
  let mfs = mfs @ List.concat_map (fun (p, c) ->
      match int_of_n p, int_of_n c with
      | 13, 2 when h.eof_cause -> [("C34", "clause2 state=" ^ st)]
      | 10, 1 -> [("C34", "clause3 state=" ^ st)]
      | _ -> []) mf in
  let asleep_cx = " class=asleep-in-connect-exchange" in
  (* C32, the gateway's half: a PUBLISH / SUBSCRIBE of the client with a predefined or short topic ID that is
     forwarded under another name than the shared configuration gives this client (a C01 failure of such a
     packet), and a broker message written to the client under a predefined or short ID that does not denote
     its name for this client (a C02 failure of such a packet) *)
  let pre_or_short (tit : n) = (let t = int_of_n tit in t = 1 || t = 2) in
  let ev_pre = (match ev with
      | EvSn dg -> (match read_dgram dg with
          | Ok (Publish (_, _, _, tit, _, _, _)) | Ok (Subscribe (_, _, tit, _, _, _)) -> pre_or_short tit
          | _ -> false)
      | _ -> false) in
  let out_pre = List.exists (fun o -> match o with
      | ObSn (_, dg) -> (match read_dgram dg with Ok (Publish (_, _, _, tit, _, _, _)) -> pre_or_short tit | _ -> false)
      | _ -> false) os in
  (* C07 as a property of the observed trace alone (Checkers/ChkGw7.v, mon7: no model state among its arguments, so it
     also judges what the implementation does after the model's session is over; theorem C07_trace_all_histories) *)
  let (m7', f7) = mon7_step cfg ev os h.mon7 in
  let c07t = List.map (fun c -> ("C07", "clause" ^ string_of_int (int_of_n c))) f7 in
  let c01 = chk_C01 cfg s ev os and c02 = chk_C02 cfg s s' ev os in
  let c32 = (if ev_pre && c01 <> [] then [("C32", "clause1")] else []) @ (if out_pre && c02 <> [] then [("C32", "clause2")] else []) in
  (tag "C14" (chk_C14 ev os) @ tag "C01" c01 @ c32 @ tag "C23" (chk_C23 os) @ c24 @ c24m
   @ tag "C03" (chk_C03 cfg s ev os)
   @ tagc "C04" (if cid_changed then " class=client-id-changed" else "") (chk_C04 cfg s ev os)
   @ tag "C07" (chk_C07 cfg s ev os) @ c07t
   @ tagc "C08" (if c08_excluded cfg s ev then asleep_cx else "") (chk_C08 cfg s ev os)
   (* the wake-up flush of a client that fell asleep inside its own connect exchange writes the queued
      WILL*REQ: the per-step clause of C09 cannot attribute it (C11 checks the flush, see DESIGN.md) *)
   @ (if c09_excluded cfg s ev then [] else tag "C09" (chk_C09 cfg s ev os))
   @ tag "C11" (chk_C11 cfg s ev os)
   @ tag "C02" c02 @ tag "C16" (chk_C16 cfg s ev os) @ mfs
   @ List.map (fun c -> let c = int_of_n c in
                ("C06", if c < 10 then Printf.sprintf "clause%d class=same-id-both-directions" c
                        else if c > 20 then Printf.sprintf "clause%d class=superseded-client-exchange" (c - 20)
                        else Printf.sprintf "clause%d" (c - 10))) (f6 @ f6r),
   { h with mon = m'; mon6 = m6'; mon6r = m6r'; mon7 = m7'; cid_changed; pinger_outlived; eof_cause })

(* The checkers run twice per step: on the implementation's observations and on the model's own
   outputs (with monitors of their own).  A failure carries "model=fails" when the faithful model
   fails the same clause in the same step - the situation of a refutation theorem (C02, C04, C06,
   C11, C12, C34 ..._refuted), which is what a recorded finding describes - and "model=holds" when
   only the implementation fails it: that is never a recorded finding. *)
let step (cfg : gw_cfg) (s : gw_state) (s' : gw_state) (ev : gw_event) (iouts : iout list) (mouts : gw_out list) (h : hstate)
  : (string * string) list * hstate =
  let (fi, hi) = step1 cfg s s' ev iouts (List.concat_map obs_of_iout iouts) h in
  let hm0 = { h with mon = h.mon_m; mon6 = h.mon6_m; mon6r = h.mon6r_m; mon7 = h.mon7_m } in
  let (fm, hm) = step1 cfg s s' ev [] (obs_of_outs mouts) hm0 in
  (List.map (fun (p, c) -> (p, c ^ (if List.mem (p, c) fm then " model=fails" else " model=holds"))) fi,
   { hi with mon_m = hm.mon; mon6_m = hm.mon6; mon6r_m = hm.mon6r; mon7_m = hm.mon7 })
