(* chk_gw.ml — converts implementation observations to the checker's [obs] type and runs
   the extracted per-step property checkers. *)
open Model
open Conv

type iout = { t : int; text : string; bad : string }

let obs_of_iout (o : iout) : obs list =
  match split_on ' ' o.text with
  | ["SN"; hx] -> [ObSn (n_of_int o.t, bytes_of_hex hx)]
  | "MQ" :: rest -> [ObMq (n_of_int o.t, Gw_io.parse_mq rest, o.bad = "")]
  | "MQGARBAGE" :: _ -> [ObMqGarbage (n_of_int o.t)]
  | ["END"] -> [ObEnd (n_of_int o.t)]
  | _ -> []

(* (property, clause) failures of one step *)
let step (cfg : gw_cfg) (s : gw_state) (ev : gw_event) (iouts : iout list) : (string * string) list =
  let os = List.concat_map obs_of_iout iouts in
  let tag p l = List.map (fun c -> (p, "clause" ^ string_of_int (int_of_n c))) l in
  let c24 =
    (* one failure per violated MQTT 3.1.1 rule, so that known findings match rule by rule *)
    List.concat_map (fun (o : iout) ->
        match split_on ' ' o.text with
        | "MQ" :: kind :: _ when o.bad <> "" ->
          List.map (fun r -> ("C24", "invalid-mqtt rule=" ^ r ^ " kind=" ^ kind)) (split_on ',' o.bad)
        | "MQGARBAGE" :: _ -> [("C24", "invalid-mqtt rule=garbage kind=?")]
        | _ -> []) iouts in
  let c24m = if c24 = [] then tag "C24" (chk_C24 os) else [] in
  tag "C14" (chk_C14 ev os) @ tag "C01" (chk_C01 cfg s ev os) @ tag "C23" (chk_C23 os) @ c24 @ c24m
  @ tag "C03" (chk_C03 cfg s ev os) @ tag "C04" (chk_C04 cfg s ev os) @ tag "C07" (chk_C07 cfg s ev os)
  @ tag "C08" (chk_C08 cfg s ev os) @ tag "C09" (chk_C09 cfg s ev os) @ tag "C11" (chk_C11 cfg s ev os)
