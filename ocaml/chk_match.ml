(* chk_match.ml — client.match on all filter/name pairs over a small alphabet, against Match.v. *)
open Model
open Conv

let run (path : string) =
  let total = ref 0 and mism = ref 0 and fails = ref 0 and nontriv = ref 0 and samples = ref 0 in
  List.iter (fun line ->
      match split_on ' ' line with
      | ["M"; f; n; r] ->
        incr total;
        let fl = split (bytes_of_hex f) and nl = split (bytes_of_hex n) in
        let m = match_route fl nl in
        if r = "1" then begin incr nontriv; if !samples < 3 && !nontriv mod 900 = 1 then (incr samples; Printf.printf "SAMPLE %s\n" line) end;
        if r = "PANIC" then begin
          incr mism; incr fails;
          if !fails <= 20 then begin
            Printf.printf "MISMATCH match PANIC :: %s\n" line;
            Printf.printf "FAIL C25 client-matcher-panics :: %s\n" line;
            Printf.printf "FAIL C27 matcher-panics :: %s\n" line end end
        else if (if m then "1" else "0") <> r then begin
          incr mism; if !mism <= 20 then Printf.printf "MISMATCH match model=%b :: %s\n" m line;
          (* match_route decides MQTT matching for well-formed filters (C27_match_is_mqtt_matching) *)
          if valid_filter fl then begin incr fails; if !fails <= 20 then Printf.printf "FAIL C27 matcher-deviates-from-mqtt-rules :: %s\n" line end
        end
      | _ -> ()) (read_lines path);
  Printf.printf "STAT evaluations=%d nontrivial=%d\n" !total !nontriv;
  Printf.printf "SUMMARY match pairs=%d mismatches=%d failures=%d\n" !total !mism !fails
