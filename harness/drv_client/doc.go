// Package drv_client is the client correspondence driver. It is built as a
// test binary because testing/synctest needs a *testing.T:
//
//	go1.26 test -c -tags verif -o drv_client.test ./drv_client
//	./drv_client.test -hist histories.txt -out trace.txt [-start N]
//
// For every history of the input file (formats: ../FORMATS.md, "Client
// histories") it runs one real client.Client against a scripted gateway over
// an in-memory datagram connection inside its own synctest bubble: API calls
// are started in goroutines of their own, datagrams are injected, virtual time
// is advanced, and everything the client does (datagrams written, API calls
// returning, subscription handlers, Wait returning) goes to the trace file.
//
// A panic in a goroutine started by the client kills the process; the trace
// then ends with the "H <index>" line and the events of the crashed history
// that were completed plus the "E" line of the event that crashed (the file is
// flushed before and after every event). The caller adds the "X PANIC" line
// and restarts with -start <index+1>, which appends to -out.
package drv_client
