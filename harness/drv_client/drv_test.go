package drv_client

import (
	"bufio"
	"context"
	"errors"
	"flag"
	"fmt"
	"net"
	"os"
	"regexp"
	"runtime"
	"runtime/debug"
	"sort"
	"strconv"
	"strings"
	"sync"
	"sync/atomic"
	"testing"
	"testing/synctest"
	"time"

	"github.com/energomonitor/bisquitt/client"
	pkts1 "github.com/energomonitor/bisquitt/packets1"
	"github.com/energomonitor/bisquitt/transactions"
	"github.com/energomonitor/bisquitt/util"

	"verifharness/memconn"
	"verifharness/vh"
)

var (
	histFlag  = flag.String("hist", "", "client history file (input)")
	outFlag   = flag.String("out", "", "client trace file (output; appended to when -start > 0; empty = stdout)")
	startFlag = flag.Int("start", 0, "skip histories with index < start")
	rawFlag   = flag.Bool("rawties", false, "do not sort the observations made at the same instant of an ADV event")
)

// ---------------------------------------------------------------- input

// callFunc performs one API call; h is the handler for the subscribing calls.
type callFunc func(c *client.Client, h client.MessageHandlerFunc) error

type event struct {
	text string   // as in the history, without the leading "E "
	kind string   // CALL, GW, ADV
	id   string   // CALL
	call callFunc // CALL
	data []byte   // GW: datagram
	ms   int      // ADV
}

type history struct {
	index  int
	cfg    client.ClientConfig
	events []event
}

func number(s string, max int) (int, error) {
	n, err := strconv.Atoi(s)
	if err != nil || n < 0 || n > max {
		return 0, fmt.Errorf("bad number %q (0..%d)", s, max)
	}
	return n, nil
}

func parseH(line string) (h history, err error) {
	f := strings.Split(line, " ")
	keys := []string{"H", "", "cid=", "user=", "pass=", "keepalive=", "ctimeout=", "rdelay=", "rcount=",
		"clean=", "will=", "wmsg=", "wqos=", "wretain=", "predef="}
	if len(f) != len(keys) {
		return h, fmt.Errorf("expected %d fields", len(keys))
	}
	for i := 2; i < len(f); i++ {
		var ok bool
		if f[i], ok = strings.CutPrefix(f[i], keys[i]); !ok {
			return h, fmt.Errorf("field %d is not %s...", i, keys[i])
		}
	}
	num := func(s string, max int) int {
		n, e := number(s, max)
		if e != nil {
			err = e
		}
		return n
	}
	str := func(s string) []byte { // "-" = absent = empty
		if s == "-" {
			return nil
		}
		b, e := vh.UnHex(s)
		if e != nil {
			err = e
		}
		return b
	}
	ms := func(s string) time.Duration { return time.Duration(num(s, 1<<31-1)) * time.Millisecond }
	h.index = num(f[1], 1<<31-1)
	h.cfg = client.ClientConfig{
		ClientID:       string(str(f[2])),
		User:           string(str(f[3])),
		Password:       str(f[4]),
		KeepAlive:      time.Duration(num(f[5], 65535)) * time.Second,
		ConnectTimeout: ms(f[6]),
		RetryDelay:     ms(f[7]),
		RetryCount:     uint(num(f[8], 1<<31-1)),
		CleanSession:   num(f[9], 1) == 1,
		WillTopic:      string(str(f[10])),
		WillPayload:    str(f[11]),
		WillQOS:        uint8(num(f[12], 255)),
		WillRetained:   num(f[13], 1) == 1,
	}
	if err == nil {
		h.cfg.PredefinedTopics, err = vh.ParsePredef(f[14])
	}
	return h, err
}

var callArity = map[string]int{"CONNECT": 0, "REGISTER": 1, "SUBSCRIBE": 2, "SUBPRE": 2, "PUBLISH": 4, "PUBPRE": 4,
	"UNSUB": 1, "UNSUBPRE": 1, "PING": 0, "SLEEP": 1, "DISCONNECT": 0, "CLOSE": 0}

func parseCall(op string, a []string) (call callFunc, err error) {
	if n, ok := callArity[op]; !ok {
		return nil, fmt.Errorf("unknown call %q", op)
	} else if len(a) != n {
		return nil, fmt.Errorf("%s takes %d arguments", op, n)
	}
	str := func(i int) string {
		b, e := vh.UnHex(a[i])
		if e != nil {
			err = e
		}
		return string(b)
	}
	num := func(i, max int) int {
		n, e := number(a[i], max)
		if e != nil {
			err = e
		}
		return n
	}
	switch op {
	case "CONNECT":
		call = func(c *client.Client, _ client.MessageHandlerFunc) error { return c.Connect() }
	case "REGISTER":
		t := str(0)
		call = func(c *client.Client, _ client.MessageHandlerFunc) error { return c.Register(t) }
	case "SUBSCRIBE":
		t, q := str(0), uint8(num(1, 255))
		call = func(c *client.Client, h client.MessageHandlerFunc) error { return c.Subscribe(t, q, h) }
	case "SUBPRE":
		t, q := uint16(num(0, 65535)), uint8(num(1, 255))
		call = func(c *client.Client, h client.MessageHandlerFunc) error { return c.SubscribePredefined(t, q, h) }
	case "PUBLISH":
		t, q, r, p := str(0), uint8(num(1, 255)), num(2, 1) == 1, []byte(str(3))
		call = func(c *client.Client, _ client.MessageHandlerFunc) error { return c.Publish(t, p, q, r) }
	case "PUBPRE":
		t, q, r, p := uint16(num(0, 65535)), uint8(num(1, 255)), num(2, 1) == 1, []byte(str(3))
		call = func(c *client.Client, _ client.MessageHandlerFunc) error { return c.PublishPredefined(t, p, q, r) }
	case "UNSUB":
		t := str(0)
		call = func(c *client.Client, _ client.MessageHandlerFunc) error { return c.Unsubscribe(t) }
	case "UNSUBPRE":
		t := uint16(num(0, 65535))
		call = func(c *client.Client, _ client.MessageHandlerFunc) error { return c.UnsubscribePredefined(t) }
	case "PING":
		call = func(c *client.Client, _ client.MessageHandlerFunc) error { return c.Ping() }
	case "SLEEP":
		d := time.Duration(num(0, 1<<31-1)) * time.Millisecond
		call = func(c *client.Client, _ client.MessageHandlerFunc) error { return c.Sleep(d) }
	case "DISCONNECT":
		call = func(c *client.Client, _ client.MessageHandlerFunc) error { return c.Disconnect() }
	case "CLOSE":
		call = func(c *client.Client, _ client.MessageHandlerFunc) error { return c.Close() }
	}
	return call, err
}

func parseE(text string) (ev event, err error) {
	ev.text = text
	var arg string
	ev.kind, arg, _ = strings.Cut(text, " ")
	switch ev.kind {
	case "CALL":
		f := strings.Split(arg, " ")
		if len(f) < 2 || f[0] == "" {
			return ev, fmt.Errorf("CALL needs an id and an operation")
		}
		ev.id = f[0]
		ev.call, err = parseCall(f[1], f[2:])
	case "GW":
		ev.data, err = vh.UnHex(arg)
	case "ADV":
		ev.ms, err = number(arg, 1<<31-1)
	default:
		err = fmt.Errorf("unknown event kind %q", ev.kind)
	}
	return ev, err
}

// readHistories parses and validates the whole file before anything is run.
// Empty lines and lines starting with '#' are ignored.
func readHistories(path string) ([]history, error) {
	f, err := os.Open(path)
	if err != nil {
		return nil, err
	}
	defer f.Close()
	var hs []history
	var cur *history
	ids := map[string]bool{}
	sc := bufio.NewScanner(f)
	sc.Buffer(nil, 1<<26)
	for n := 1; sc.Scan(); n++ {
		line := sc.Text()
		var err error
		switch {
		case line == "" || line[0] == '#':
		case strings.HasPrefix(line, "H ") && cur == nil:
			var h history
			h, err = parseH(line)
			cur, ids = &h, map[string]bool{}
		case strings.HasPrefix(line, "E ") && cur != nil:
			var ev event
			if ev, err = parseE(line[2:]); err == nil && ev.kind == "CALL" && ids[ev.id] {
				err = fmt.Errorf("call id used twice")
			}
			ids[ev.id] = true
			cur.events = append(cur.events, ev)
		case line == "END" && cur != nil:
			hs = append(hs, *cur)
			cur = nil
		default:
			err = fmt.Errorf("unexpected line")
		}
		if err != nil {
			return nil, fmt.Errorf("%s:%d: %v: %q", path, n, err, line)
		}
	}
	if cur != nil {
		return nil, fmt.Errorf("%s: history %d has no END", path, cur.index)
	}
	return hs, sc.Err()
}

// ---------------------------------------------------------------- output

// trace serialises the lines produced by the goroutines of a history. The
// observations of one event are collected and written when the event has
// settled, see flushEvent.
type trace struct {
	mu    sync.Mutex
	w     *bufio.Writer
	start time.Time // start of the current bubble
	quiet bool      // drop "O" lines (after the last event of a history)
	obs   []obsLine // observations of the current event
}

type obsLine struct {
	ms   int64
	text string
	cb   bool
}

// linef writes a line at once. Only the root goroutine of a history does that.
func (tr *trace) linef(format string, a ...any) { fmt.Fprintf(tr.w, format+"\n", a...) }

func (tr *trace) ms() int64 { return (time.Since(tr.start) + time.Millisecond/2).Milliseconds() }

// obsf records an "O <t> ..." line. The time is rounded to the nearest
// millisecond because what a read deadline triggers happens 1 ns before the
// millisecond (memconn's EarlyDeadline).
func (tr *trace) obsf(format string, a ...any) {
	tr.mu.Lock()
	defer tr.mu.Unlock()
	if !tr.quiet {
		ms := tr.ms()
		text := fmt.Sprintf(format, a...)
		tr.obs = append(tr.obs, obsLine{ms, fmt.Sprintf("O %d %s", ms, text), strings.HasPrefix(text, "CB ")})
	}
}

// panicf records an "X PANIC" line (never dropped).
func (tr *trace) panicf(v any) {
	tr.mu.Lock()
	defer tr.mu.Unlock()
	tr.obs = append(tr.obs, obsLine{ms: tr.ms(), text: "X PANIC " + oneLine(v)})
}

// flushEvent writes the collected observations of an event.
//
// Go 1.26 fires the timers of a bubble that are due at the same instant in a
// random order (runtime: timerWhen.less), and the client has many timers:
// retries, connect timeout, keep-alive ticker, sleep. What they do is therefore
// observed in an arbitrary interleaving. Time passes only under ADV, so there
// the lines that carry the same time are written sorted by their text: what
// happens at one instant is a multiset. Under CALL and GW nothing fires, the
// lines are in program order, except that CB lines (handlers run in goroutines
// of their own) carrying the same time are sorted among themselves.
func (tr *trace) flushEvent(kind string, quiet bool) {
	tr.mu.Lock()
	defer tr.mu.Unlock()
	var at []int
	var sel []obsLine
	for i, o := range tr.obs {
		if o.cb || kind == "ADV" && !*rawFlag {
			at, sel = append(at, i), append(sel, o)
		}
	}
	sort.SliceStable(sel, func(i, j int) bool {
		return sel[i].ms < sel[j].ms || sel[i].ms == sel[j].ms && sel[i].text < sel[j].text
	})
	for i, o := range sel {
		tr.obs[at[i]] = o
	}
	for _, o := range tr.obs {
		tr.linef("%s", o.text)
	}
	tr.obs, tr.quiet = tr.obs[:0], quiet
	tr.w.Flush()
}

// ---------------------------------------------------------------- goroutine census

var bubbleRe = regexp.MustCompile(`(?m)^goroutine \d+ \[.*synctest bubble (\d+)`)

// bubbleGoroutines counts the goroutines of the caller's synctest bubble (the
// runtime marks them in goroutine dumps). Pending timers are not goroutines.
func bubbleGoroutines() int {
	buf := make([]byte, 1<<16)
	for {
		if n := runtime.Stack(buf, true); n < len(buf) {
			buf = buf[:n]
			break
		}
		buf = make([]byte, 2*len(buf))
	}
	ms := bubbleRe.FindAllSubmatch(buf, -1) // the caller comes first in the dump
	n := 0
	for _, m := range ms {
		if string(m[1]) == string(ms[0][1]) {
			n++
		}
	}
	return n
}

// ---------------------------------------------------------------- running

func oneLine(v any) string {
	return strings.Join(strings.Fields(fmt.Sprint(v)), " ")
}

// classify maps the error of an API call to the classes of FORMATS.md.
func classify(err error) string {
	if err == nil {
		return "ok"
	}
	s := err.Error()
	has := func(sub string) bool { return strings.Contains(s, sub) }
	class := "other"
	switch {
	case errors.Is(err, transactions.ErrTimeout), s == "connect timeout", has("did not receive PINGRESP"):
		class = "timeout"
	case errors.Is(err, transactions.ErrNoMoreRetries):
		class = "noretries"
	case errors.Is(err, context.Canceled):
		class = "cancelled"
	case errors.Is(err, net.ErrClosed):
		class = "closed"
	case strings.HasSuffix(s, "not registered!"): // first: the text quotes the topic
		class = "notregistered"
	case has("rejected"):
		class = "rejected"
	case has("cannot call Sleep"):
		class = "state"
	case has("invalid"), has("too long"), has("empty topic"):
		class = "invalid"
	case has("closed"):
		class = "closed"
	}
	return "err:" + class
}

func b2i(b bool) int {
	if b {
		return 1
	}
	return 0
}

// runHistory runs inside a fresh synctest bubble.
func runHistory(h history, tr *trace) {
	tr.start, tr.quiet = time.Now(), false
	baseline := bubbleGoroutines()

	conn := memconn.NewDatagram()
	// The 1 s read deadlines of the client's receive loop often coincide with
	// transaction timers. Let the deadlines go first, always.
	conn.EarlyDeadline = true
	conn.OnWrite = func(b []byte) { tr.obsf("SN %s", vh.Hex(b)) }
	cfg := h.cfg
	c := client.NewClient(util.NoOpLogger{}, &cfg)
	c.VerifSetDial(func() (net.Conn, error) { return conn, nil })
	if err := c.Dial("ignored"); err != nil {
		panic(err) // impossible with VerifSetDial
	}

	var waiting atomic.Int32 // goroutines of the driver that are inside the client
	var exited atomic.Bool   // Wait() returned
	spawn := func(f func()) {
		waiting.Add(1)
		go func() {
			defer waiting.Add(-1)
			defer func() { // only panics of the calling goroutine can be caught
				if r := recover(); r != nil {
					tr.panicf(r)
				}
			}()
			f()
		}()
	}
	spawn(func() {
		c.Wait()
		exited.Store(true)
		tr.obsf("EXIT")
	})
	synctest.Wait()

	for k, ev := range h.events {
		tr.linef("E %d %s", k, ev.text)
		tr.w.Flush() // flushed first: after a crash the trace shows the event that caused it
		switch ev.kind {
		case "CALL":
			handler := func(_ *client.Client, topic string, p *pkts1.Publish) {
				tr.obsf("CB %s %s %s qos=%d retain=%d dup=%d mid=%d", ev.id, vh.HexS(topic), vh.Hex(p.Data),
					p.QOS, b2i(p.Retain), b2i(p.DUP()), p.MessageID())
			}
			spawn(func() { tr.obsf("RET %s %s", ev.id, classify(ev.call(c, handler))) })
		case "GW":
			conn.Inject(ev.data)
		case "ADV":
			time.Sleep(time.Duration(ev.ms) * time.Millisecond)
		}
		synctest.Wait()
		tr.flushEvent(ev.kind, k == len(h.events)-1)
	}
	tr.flushEvent("", true)

	// Wind the client down without logging what that causes: Close (at most a
	// DISCONNECT with all its retries), then time for whatever is pending (the
	// sleep transaction waits up to 60 s for a PINGRESP).
	// Half a millisecond first: the timers of Close's DISCONNECT must not tie
	// with those that are pending (all at whole milliseconds or 1 ns before).
	time.Sleep(time.Millisecond / 2)
	synctest.Wait()
	if !exited.Load() {
		spawn(func() { c.Close() })
	}
	synctest.Wait()
	settled := func() bool { return exited.Load() && waiting.Load() == 0 }
	limit := 200 + int((cfg.RetryDelay*time.Duration(cfg.RetryCount+2)+cfg.ConnectTimeout)/time.Second)
	for i := 0; i < limit && !settled(); i++ {
		time.Sleep(time.Second)
		synctest.Wait()
	}
	tr.flushEvent("", true) // an "X PANIC" of the wind-down, if any
	if n := bubbleGoroutines() - baseline; n > 0 || !settled() {
		tr.linef("X LEAK %d", max(n, 1))
		// Closing the connection ends the receive loop, which cancels the
		// client's context: whatever can still finish does (silently). What
		// cannot makes synctest panic when this function returns, see bubble.
		conn.Close()
		for i := 0; i < 3; i++ {
			time.Sleep(time.Second)
			synctest.Wait()
		}
	}
	tr.linef("END")
	tr.w.Flush()
}

// bubble runs f in a synctest bubble. If goroutines (durably blocked ones) are
// left behind when f returns, synctest panics in the calling goroutine: that
// panic is returned instead (the leak is already in the trace as "X LEAK").
func bubble(t *testing.T, f func()) (leftover any) {
	defer func() { leftover = recover() }()
	runtime.GC() // between the bubbles only, see TestMain
	synctest.Test(t, func(*testing.T) { f() })
	return nil
}

// TestMain makes scheduling as repeatable as possible for goroutines that
// become runnable at the same virtual instant (e.g. two retry timers): one P,
// and no garbage collection (hence no preemption by it) while a history runs.
//
// Given -hist, the binary is the driver: only TestDrive runs.
func TestMain(m *testing.M) {
	flag.Parse()
	if *histFlag != "" {
		flag.Set("test.run", "^TestDrive$")
	}
	runtime.GOMAXPROCS(1)
	debug.SetGCPercent(-1)
	debug.SetMemoryLimit(256 << 20) // ...unless a very long history needs it
	os.Exit(m.Run())
}

func TestDrive(t *testing.T) {
	if *histFlag == "" {
		t.Skip("no -hist file given")
	}
	hs, err := readHistories(*histFlag)
	if err != nil {
		t.Fatal(err)
	}
	out := os.Stdout
	if *outFlag != "" {
		mode := os.O_WRONLY | os.O_CREATE | os.O_TRUNC
		if *startFlag > 0 {
			mode = os.O_WRONLY | os.O_CREATE | os.O_APPEND
		}
		if out, err = os.OpenFile(*outFlag, mode, 0o644); err != nil {
			t.Fatal(err)
		}
		defer out.Close()
	}
	tr := &trace{w: bufio.NewWriter(out)}
	for _, h := range hs {
		if h.index < *startFlag {
			continue
		}
		tr.linef("H %d", h.index)
		if err := tr.w.Flush(); err != nil {
			t.Fatal(err)
		}
		if p := bubble(t, func() { runHistory(h, tr) }); p != nil {
			fmt.Fprintf(os.Stderr, "drv_client: history %d: %s\n", h.index, oneLine(p))
		}
	}
}
