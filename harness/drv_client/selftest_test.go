package drv_client

import (
	"bufio"
	"bytes"
	"context"
	"errors"
	"fmt"
	"net"
	"os"
	"path/filepath"
	"strings"
	"testing"

	"github.com/energomonitor/bisquitt/transactions"
)

func runAll(t *testing.T, hs []history, wantLeftover bool) string {
	var b bytes.Buffer
	tr := &trace{w: bufio.NewWriter(&b)}
	for _, h := range hs {
		tr.linef("H %d", h.index)
		if p := bubble(t, func() { runHistory(h, tr) }); (p != nil) != wantLeftover {
			t.Fatalf("history %d: leftover %v", h.index, p)
		}
	}
	return b.String()
}

// The sample history gives the same trace on every run.
func TestSampleDeterministic(t *testing.T) {
	hs, err := readHistories("testdata/sample.hist")
	if err != nil {
		t.Fatal(err)
	}
	first := runAll(t, hs, false)
	for i := 0; i < 20; i++ {
		if again := runAll(t, hs, false); again != first {
			t.Fatalf("run %d differs:\n%s\n---\n%s", i, first, again)
		}
	}
	if want, err := os.ReadFile(filepath.Join("testdata", "sample.trace")); err == nil && string(want) != first {
		t.Errorf("trace differs from testdata/sample.trace:\n%s", first)
	}
	if strings.Contains(first, "X ") || strings.Count(first, "\nEND\n") != len(hs) {
		t.Errorf("unexpected trace:\n%s", first)
	}
}

// A client that cannot finish (testdata/hang.hist: the keep-alive loop waits
// for its own errgroup) is reported as a leak, the bubble is torn down and the
// next history runs.
func TestHangIsLeak(t *testing.T) {
	hs, err := readHistories("testdata/hang.hist")
	if err != nil {
		t.Fatal(err)
	}
	got := runAll(t, hs[:1], true) + runAll(t, hs[1:], false)
	if !strings.Contains(got, "X LEAK 3\nEND\nH 1\n") || !strings.HasSuffix(got, "O 1000 RET 1 err:timeout\nEND\n") {
		t.Errorf("unexpected trace:\n%s", got)
	}
}

func TestClassify(t *testing.T) {
	for _, c := range []struct {
		err  error
		want string
	}{
		{nil, "ok"},
		{transactions.ErrTimeout, "err:timeout"},
		{errors.New("connect timeout"), "err:timeout"},
		{errors.New("did not receive PINGRESP in 1m0s"), "err:timeout"},
		{transactions.ErrNoMoreRetries, "err:noretries"},
		{errors.New("connection rejected: congestion"), "err:rejected"},
		{errors.New("registration rejected with code 2"), "err:rejected"},
		{fmt.Errorf("topic %#v not registered!", "rejected/invalid"), "err:notregistered"},
		{errors.New(`cannot call Sleep() in "asleep" state`), "err:state"},
		{context.Canceled, "err:cancelled"},
		{fmt.Errorf("write: %w", net.ErrClosed), "err:closed"},
		{errors.New("invalid qos: 4"), "err:invalid"},
		{errors.New("packet too long: 70000 > 65535"), "err:invalid"},
		{errors.New("bad CONNACK packet length: expected 1, got 0"), "err:other"},
	} {
		if got := classify(c.err); got != c.want {
			t.Errorf("classify(%v) = %s, want %s", c.err, got, c.want)
		}
	}
}
