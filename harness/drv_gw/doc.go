// Package drv_gw is the gateway correspondence driver. It is built as a test
// binary because testing/synctest needs a *testing.T:
//
//	go1.26 test -c -tags verif -o drv_gw.test ./drv_gw
//	./drv_gw.test -hist histories.txt -out trace.txt [-start N]
//
// For every history of the input file (formats: ../FORMATS.md) it runs one
// real gateway session (gateway.VerifSession) over in-memory connections
// inside its own synctest bubble, feeds it the events of the history and
// writes everything the session does to the trace file.
//
// A panic in a goroutine started by the gateway kills the process; the trace
// then ends with the "H <index>" line and the events of the crashed history
// that were completed (the file is flushed after every event). The caller adds
// the "X PANIC" line and restarts with -start <index+1>, which appends to -out.
package drv_gw
