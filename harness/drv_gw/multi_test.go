package drv_gw

// Multi-session mode (property C15): the k histories of a group share one
// configuration and one predefined-topics map and run as k concurrent sessions
// of ONE gateway (gateway.NewVerifShared, as ListenAndServe does per peer
// address) inside one synctest bubble, on a common clock. Every session's
// observations are written as its own trace block, in the format of the
// single-session mode, so that each can be compared with the single-session
// model run of its own events.

import (
	"context"
	"fmt"
	"strings"
	"testing/synctest"
	"time"

	"github.com/energomonitor/bisquitt/gateway"
	"github.com/energomonitor/bisquitt/util"

	"verifharness/memconn"
	"verifharness/mqttref"
	"verifharness/vh"
)

type msession struct {
	h      history
	lines  []string // trace block of this session, guarded by tr.mu
	quiet  bool
	ended  bool
	next   int // next event to start
	remain int // ms left of the ADV event in progress (k = next-1), 0 if none
	inAdv  bool
	sn     *memconn.Datagram
	mq     *memconn.Stream
	parser mqttref.Parser
	cancel context.CancelFunc
	done   bool // all events consumed and wind-down started
}

func (s *msession) obsf(tr *trace, format string, a ...any) { // call with tr.mu held
	if !s.quiet {
		ms := (time.Since(tr.start) + time.Millisecond/2).Milliseconds()
		s.lines = append(s.lines, fmt.Sprintf("O %d "+format, append([]any{ms}, a...)...))
	}
}

func runGroup(hs []history, tr *trace) {
	tr.start, tr.quiet = time.Now(), false
	baseline := bubbleGoroutines()
	shared := gateway.NewVerifShared(hs[0].cfg, hs[0].predef)
	ss := make([]*msession, len(hs))
	for i := range hs {
		s := &msession{h: hs[i]}
		ss[i] = s
		s.sn, s.mq = memconn.NewDatagram(), memconn.NewStream()
		s.sn.EarlyDeadline, s.mq.EarlyDeadline = true, true
		s.sn.OnWrite = func(b []byte) { tr.locked(func() { s.obsf(tr, "SN %s", vh.Hex(b)) }) }
		s.sn.OnClose = func() { tr.locked(func() { s.obsf(tr, "SNCLOSE") }) }
		s.mq.OnClose = func() { tr.locked(func() { s.obsf(tr, "CLOSE") }) }
		s.mq.OnWrite = func(b []byte) {
			tr.locked(func() {
				for _, r := range s.parser.Feed(b) {
					switch {
					case r.Garbage:
						s.obsf(tr, "MQGARBAGE %s", vh.Hex(r.Raw))
					case len(r.Bad) > 0:
						s.obsf(tr, "MQBAD %s %s", strings.Join(r.Bad, ","), mqttref.Spec(r.Packet))
					default:
						s.obsf(tr, "MQ %s", mqttref.Spec(r.Packet))
					}
				}
			})
		}
		session := shared.NewSession(s.mq, util.NoOpLogger{})
		ctx, cancel := context.WithCancel(context.Background())
		s.cancel = cancel
		go func() {
			defer func() {
				r := recover()
				tr.locked(func() {
					if r != nil {
						s.lines = append(s.lines, fmt.Sprintf("X PANIC %s", oneLine(r)))
					} else {
						s.obsf(tr, "END")
					}
					s.ended = true
				})
			}()
			session.Run(ctx, s.sn)
		}()
	}
	synctest.Wait()

	windDown := func(s *msession) {
		tr.locked(func() {
			if p := s.parser.Pending(); len(p) > 0 {
				s.obsf(tr, "MQGARBAGE %s", vh.Hex(p))
			}
			s.quiet = true
		})
		s.done = true
		s.cancel()
		synctest.Wait()
	}

	for {
		// start every event that is due now, session by session
		progress := true
		for progress {
			progress = false
			for _, s := range ss {
				for !s.done && !s.inAdv {
					if s.next >= len(s.h.events) {
						windDown(s)
						break
					}
					ev := s.h.events[s.next]
					k := s.next
					s.next++
					tr.locked(func() { s.lines = append(s.lines, fmt.Sprintf("E %d %s", k, ev.text)) })
					switch ev.kind {
					case "SN":
						s.sn.Inject(ev.data)
					case "MQ", "MQRAW":
						s.mq.Inject(ev.data)
					case "MQEOF":
						s.mq.CloseRemote()
					case "SHUTDOWN":
						s.cancel()
					case "ADV":
						if ev.ms > 0 {
							s.inAdv, s.remain = true, ev.ms
						}
					}
					synctest.Wait()
					progress = true
				}
			}
		}
		// let time pass up to the end of the nearest ADV in progress
		delta := 0
		for _, s := range ss {
			if s.inAdv && (delta == 0 || s.remain < delta) {
				delta = s.remain
			}
		}
		if delta == 0 {
			break // every session has consumed its history
		}
		time.Sleep(time.Duration(delta) * time.Millisecond)
		synctest.Wait()
		for _, s := range ss {
			if s.inAdv {
				if s.remain -= delta; s.remain == 0 {
					s.inAdv = false
				}
			}
		}
	}

	alldone := func() (d bool) {
		tr.locked(func() {
			d = true
			for _, s := range ss {
				d = d && s.ended
			}
		})
		return
	}
	for i := 0; i < 10 && !alldone(); i++ {
		time.Sleep(100 * time.Millisecond)
		synctest.Wait()
	}
	tr.locked(func() {
		leak := bubbleGoroutines() - baseline
		for i, s := range ss {
			tr.linef("H %d", s.h.index)
			for _, l := range s.lines {
				tr.linef("%s", l)
			}
			// goroutines that outlive sessions which all returned are attributed to the first one
			if !s.ended || (i == 0 && leak > 0) {
				tr.linef("X LEAK %d", max(leak, 1))
			}
			tr.linef("END")
		}
		tr.w.Flush()
	})
}
