package drv_gw

import (
	"bufio"
	"bytes"
	"os"
	"path/filepath"
	"strings"
	"sync/atomic"
	"testing"
	"testing/synctest"
	"time"
)

// The goroutine census sees exactly the goroutines of the bubble, a leaked
// (durably blocked) goroutine makes synctest panic in the caller of
// synctest.Test, where bubble() catches it; a pending AfterFunc timer is not a
// leak and never fires once the bubble's root function has returned.
func TestBubbleCensus(t *testing.T) {
	var fired atomic.Bool
	var diff int
	if p := bubble(t, func() {
		base := bubbleGoroutines()
		time.AfterFunc(time.Second, func() { fired.Store(true) })
		tm := time.AfterFunc(time.Millisecond, func() {})
		time.Sleep(2 * time.Millisecond)
		synctest.Wait()
		tm.Stop()
		diff = bubbleGoroutines() - base
	}); p != nil || diff != 0 {
		t.Fatalf("timers only: leftover %v, goroutine diff %d", p, diff)
	}
	p := bubble(t, func() {
		base := bubbleGoroutines()
		for i := 0; i < 3; i++ {
			go func() { <-make(chan int) }()
		}
		synctest.Wait()
		diff = bubbleGoroutines() - base
	})
	if p == nil || diff != 3 {
		t.Fatalf("leak: leftover %v, goroutine diff %d", p, diff)
	}
	t.Logf("synctest said: %s", oneLine(p))
	time.Sleep(10 * time.Millisecond)
	if fired.Load() {
		t.Fatal("AfterFunc fired after the bubble ended")
	}
}

// The sample history gives the same trace on every run, and -start appends the tail.
func TestSampleDeterministic(t *testing.T) {
	hs, err := readHistories("testdata/sample.hist")
	if err != nil {
		t.Fatal(err)
	}
	run := func() string {
		var b bytes.Buffer
		tr := &trace{w: bufio.NewWriter(&b)}
		for _, h := range hs {
			tr.linef("H %d", h.index)
			if p := bubble(t, func() { runHistory(h, tr) }); p != nil {
				t.Fatalf("history %d: %v", h.index, p)
			}
		}
		return b.String()
	}
	first := run()
	for i := 0; i < 20; i++ {
		if again := run(); again != first {
			t.Fatalf("run %d differs:\n%s\n---\n%s", i, first, again)
		}
	}
	if want, err := os.ReadFile(filepath.Join("testdata", "sample.trace")); err == nil && string(want) != first {
		t.Errorf("trace differs from testdata/sample.trace:\n%s", first)
	}
	if strings.Contains(first, "X ") || strings.Count(first, "\nEND\n") != len(hs) {
		t.Errorf("unexpected trace:\n%s", first)
	}
}
