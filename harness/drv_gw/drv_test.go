package drv_gw

import (
	"bufio"
	"context"
	"flag"
	"fmt"
	"os"
	"regexp"
	"runtime"
	"runtime/debug"
	"strconv"
	"strings"
	"sync"
	"testing"
	"testing/synctest"
	"time"

	"github.com/energomonitor/bisquitt/gateway"
	"github.com/energomonitor/bisquitt/topics"
	"github.com/energomonitor/bisquitt/util"

	"verifharness/memconn"
	"verifharness/mqttref"
	"verifharness/vh"
)

var (
	histFlag  = flag.String("hist", "", "gateway history file (input)")
	outFlag   = flag.String("out", "", "gateway trace file (output; appended to when -start > 0; empty = stdout)")
	startFlag = flag.Int("start", 0, "skip histories with index < start")
	multiFlag = flag.Int("multi", 1, "run groups of this many consecutive histories (same configuration) as concurrent sessions of one gateway")
)

// ---------------------------------------------------------------- input

type event struct {
	text string // as in the history, without the leading "E "
	kind string // SN, MQ, MQRAW, MQEOF, ADV, SHUTDOWN
	data []byte // SN: datagram; MQ, MQRAW: bytes for the broker stream
	ms   int    // ADV
}

type history struct {
	index  int
	cfg    gateway.VerifSessionConfig
	predef topics.PredefinedTopics
	events []event
}

func parseH(line string) (h history, err error) {
	f := strings.Split(line, " ")
	keys := []string{"H", "", "auth=", "user=", "pass=", "rdelay=", "rcount=", "predef="}
	if len(f) != len(keys) {
		return h, fmt.Errorf("expected %d fields", len(keys))
	}
	for i := 2; i < len(f); i++ {
		var ok bool
		if f[i], ok = strings.CutPrefix(f[i], keys[i]); !ok {
			return h, fmt.Errorf("field %d is not %s...", i, keys[i])
		}
	}
	num := func(s string) int {
		n, e := strconv.Atoi(s)
		if e != nil || n < 0 {
			err = fmt.Errorf("bad number %q", s)
		}
		return n
	}
	opt := func(s string) []byte { // "-" = nil, otherwise a non-nil byte string
		if s == "-" {
			return nil
		}
		b, e := vh.UnHex(s)
		if e != nil {
			err = e
		}
		return append([]byte{}, b...)
	}
	h.index = num(f[1])
	h.cfg.AuthEnabled = num(f[2]) == 1
	if u := opt(f[3]); u != nil {
		s := string(u)
		h.cfg.MqttUser = &s
	}
	h.cfg.MqttPassword = opt(f[4])
	h.cfg.RetryDelay = time.Duration(num(f[5])) * time.Millisecond
	h.cfg.RetryCount = uint(num(f[6]))
	if err == nil {
		h.predef, err = vh.ParsePredef(f[7])
	}
	return h, err
}

func parseE(text string) (ev event, err error) {
	ev.text = text
	var arg string
	ev.kind, arg, _ = strings.Cut(text, " ")
	switch ev.kind {
	case "SN", "MQRAW":
		ev.data, err = vh.UnHex(arg)
	case "MQ":
		var p mqttref.Packet
		if p, err = mqttref.ParseSpec(arg); err == nil {
			ev.data = mqttref.Encode(p)
		}
	case "ADV":
		if ev.ms, err = strconv.Atoi(arg); err == nil && ev.ms < 0 {
			err = fmt.Errorf("negative time")
		}
	case "MQEOF", "SHUTDOWN":
		if arg != "" {
			err = fmt.Errorf("unexpected argument")
		}
	default:
		err = fmt.Errorf("unknown event kind %q", ev.kind)
	}
	return ev, err
}

// readHistories parses and validates the whole file before anything is run.
// Empty lines and lines starting with '#' are ignored.
func readHistories(path string) ([]history, error) {
	f, err := os.Open(path)
	if err != nil {
		return nil, err
	}
	defer f.Close()
	var hs []history
	var cur *history
	sc := bufio.NewScanner(f)
	sc.Buffer(nil, 1<<26)
	for n := 1; sc.Scan(); n++ {
		line := sc.Text()
		var err error
		switch {
		case line == "" || line[0] == '#':
		case strings.HasPrefix(line, "H ") && cur == nil:
			var h history
			h, err = parseH(line)
			cur = &h
		case strings.HasPrefix(line, "E ") && cur != nil:
			var ev event
			ev, err = parseE(line[2:])
			cur.events = append(cur.events, ev)
		case line == "END" && cur != nil:
			hs = append(hs, *cur)
			cur = nil
		default:
			err = fmt.Errorf("unexpected line")
		}
		if err != nil {
			return nil, fmt.Errorf("%s:%d: %v: %q", path, n, err, line)
		}
	}
	if cur != nil {
		return nil, fmt.Errorf("%s: history %d has no END", path, cur.index)
	}
	return hs, sc.Err()
}

// ---------------------------------------------------------------- output

// trace serialises the lines written from the goroutines of the session.
type trace struct {
	mu    sync.Mutex
	w     *bufio.Writer
	start time.Time // start of the current bubble
	quiet bool      // drop "O" lines (after the last event of a history)
}

// linef writes a line unconditionally; call with mu held.
func (tr *trace) linef(format string, a ...any) { fmt.Fprintf(tr.w, format+"\n", a...) }

// obsf writes an "O <t> ..." line; call with mu held. The time is rounded to
// the nearest millisecond because what a read deadline triggers happens 1 ns
// before the millisecond (memconn's EarlyDeadline).
func (tr *trace) obsf(format string, a ...any) {
	if !tr.quiet {
		ms := (time.Since(tr.start) + time.Millisecond/2).Milliseconds()
		tr.linef("O %d "+format, append([]any{ms}, a...)...)
	}
}

func (tr *trace) locked(f func()) {
	tr.mu.Lock()
	defer tr.mu.Unlock()
	f()
}

// ---------------------------------------------------------------- goroutine census

var bubbleRe = regexp.MustCompile(`(?m)^goroutine \d+ \[.*synctest bubble (\d+)`)

// bubbleGoroutines counts the goroutines of the caller's synctest bubble (the
// runtime marks them in goroutine dumps). Pending timers are not goroutines.
func bubbleGoroutines() int {
	buf := make([]byte, 1<<16)
	for {
		if n := runtime.Stack(buf, true); n < len(buf) {
			buf = buf[:n]
			break
		}
		buf = make([]byte, 2*len(buf))
	}
	ms := bubbleRe.FindAllSubmatch(buf, -1) // the caller comes first in the dump
	n := 0
	for _, m := range ms {
		if string(m[1]) == string(ms[0][1]) {
			n++
		}
	}
	return n
}

// ---------------------------------------------------------------- running

func oneLine(v any) string {
	return strings.Join(strings.Fields(fmt.Sprint(v)), " ")
}

// runHistory runs inside a fresh synctest bubble.
func runHistory(h history, tr *trace) {
	tr.start, tr.quiet = time.Now(), false
	baseline := bubbleGoroutines()

	var parser mqttref.Parser
	sn, mq := memconn.NewDatagram(), memconn.NewStream()
	// The 100 ms read deadlines of the session's ConnWithContext often coincide
	// with transaction timers (e.g. CONNECT at T: deadlines at T+100k, connect
	// timeout at T+5000). Let the deadlines go first, always.
	sn.EarlyDeadline, mq.EarlyDeadline = true, true
	sn.OnWrite = func(b []byte) { tr.locked(func() { tr.obsf("SN %s", vh.Hex(b)) }) }
	sn.OnClose = func() { tr.locked(func() { tr.obsf("SNCLOSE") }) }
	mq.OnClose = func() { tr.locked(func() { tr.obsf("CLOSE") }) }
	mq.OnWrite = func(b []byte) {
		tr.locked(func() {
			for _, r := range parser.Feed(b) {
				switch {
				case r.Garbage:
					tr.obsf("MQGARBAGE %s", vh.Hex(r.Raw))
				case len(r.Bad) > 0:
					tr.obsf("MQBAD %s %s", strings.Join(r.Bad, ","), mqttref.Spec(r.Packet))
				default:
					tr.obsf("MQ %s", mqttref.Spec(r.Packet))
				}
			}
		})
	}

	session := gateway.NewVerifShared(h.cfg, h.predef).NewSession(mq, util.NoOpLogger{})
	ctx, cancel := context.WithCancel(context.Background())
	defer cancel()
	ended := false // guarded by tr.mu
	go func() {
		defer func() {
			r := recover() // only panics of Run's own goroutine can be caught
			tr.locked(func() {
				if r != nil {
					tr.linef("X PANIC %s", oneLine(r))
				} else {
					tr.obsf("END")
				}
				ended = true
			})
		}()
		session.Run(ctx, sn)
	}()
	synctest.Wait()

	for k, ev := range h.events {
		tr.locked(func() { // flushed first: after a crash the trace shows the event that caused it
			tr.linef("E %d %s", k, ev.text)
			tr.w.Flush()
		})
		switch ev.kind {
		case "SN":
			sn.Inject(ev.data)
		case "MQ", "MQRAW":
			mq.Inject(ev.data)
		case "MQEOF":
			mq.CloseRemote()
		case "ADV":
			time.Sleep(time.Duration(ev.ms) * time.Millisecond)
		case "SHUTDOWN":
			cancel()
		}
		synctest.Wait()
		tr.locked(func() { tr.w.Flush() })
	}

	// Wind the session down without logging what the implicit cancel causes.
	done := false
	tr.locked(func() {
		if p := parser.Pending(); len(p) > 0 { // an incomplete packet was written
			tr.obsf("MQGARBAGE %s", vh.Hex(p))
		}
		tr.quiet, done = true, ended
	})
	cancel()
	synctest.Wait()
	for i := 0; i < 10 && !done; i++ {
		time.Sleep(100 * time.Millisecond)
		synctest.Wait()
		tr.locked(func() { done = ended })
	}
	tr.locked(func() {
		if n := bubbleGoroutines() - baseline; n > 0 || !done {
			tr.linef("X LEAK %d", max(n, 1))
		}
		tr.linef("END")
		tr.w.Flush()
	})
}

// bubble runs f in a synctest bubble. If goroutines (durably blocked ones) are
// left behind when f returns, synctest panics in the calling goroutine: that
// panic is returned instead (the leak is already in the trace as "X LEAK").
func bubble(t *testing.T, f func()) (leftover any) {
	defer func() { leftover = recover() }()
	runtime.GC() // between the bubbles only, see TestMain
	synctest.Test(t, func(*testing.T) { f() })
	return nil
}

// TestMain makes scheduling as repeatable as possible for goroutines that
// become runnable at the same virtual instant (e.g. two retry timers): one P,
// and no garbage collection (hence no preemption by it) while a history runs.
//
// Given -hist, the binary is the driver: only TestDrive runs.
func TestMain(m *testing.M) {
	flag.Parse()
	if *histFlag != "" {
		flag.Set("test.run", "^TestDrive$")
	}
	runtime.GOMAXPROCS(1)
	debug.SetGCPercent(-1)
	debug.SetMemoryLimit(256 << 20) // ...unless a very long history needs it
	os.Exit(m.Run())
}

func TestDrive(t *testing.T) {
	if *histFlag == "" {
		t.Skip("no -hist file given")
	}
	hs, err := readHistories(*histFlag)
	if err != nil {
		t.Fatal(err)
	}
	out := os.Stdout
	if *outFlag != "" {
		mode := os.O_WRONLY | os.O_CREATE | os.O_TRUNC
		if *startFlag > 0 {
			mode = os.O_WRONLY | os.O_CREATE | os.O_APPEND
		}
		if out, err = os.OpenFile(*outFlag, mode, 0o644); err != nil {
			t.Fatal(err)
		}
		defer out.Close()
	}
	tr := &trace{w: bufio.NewWriter(out)}
	if *multiFlag > 1 {
		for i := 0; i+*multiFlag <= len(hs); i += *multiFlag {
			grp := hs[i : i+*multiFlag]
			if grp[0].index < *startFlag {
				continue
			}
			// announce the group first: after a crash the trace shows which histories were running
			tr.linef("G %d %d", grp[0].index, grp[len(grp)-1].index)
			if err := tr.w.Flush(); err != nil {
				t.Fatal(err)
			}
			if p := bubble(t, func() { runGroup(grp, tr) }); p != nil {
				fmt.Fprintf(os.Stderr, "drv_gw: group %d: %s\n", grp[0].index, oneLine(p))
			}
		}
		return
	}
	for _, h := range hs {
		if h.index < *startFlag {
			continue
		}
		tr.linef("H %d", h.index)
		if err := tr.w.Flush(); err != nil {
			t.Fatal(err)
		}
		if p := bubble(t, func() { runHistory(h, tr) }); p != nil {
			fmt.Fprintf(os.Stderr, "drv_gw: history %d: %s\n", h.index, oneLine(p))
		}
	}
}
