// drv_match enumerates topic filters and topic names over a small alphabet of levels and prints
// what the client's matcher (client.match through the verif hook) answers:  M <filter> <name> <0|1|PANIC>
package main

import (
	"bufio"
	"flag"
	"fmt"
	"os"
	"strings"

	"github.com/energomonitor/bisquitt/client"
	"verifharness/vh"
)

func enum(alpha []string, maxLevels int) []string {
	var res []string
	cur := []string{}
	var rec func(depth int)
	rec = func(depth int) {
		if depth > 0 {
			res = append(res, strings.Join(cur, "/"))
		}
		if depth == maxLevels {
			return
		}
		for _, a := range alpha {
			cur = append(cur, a)
			rec(depth + 1)
			cur = cur[:len(cur)-1]
		}
	}
	rec(0)
	return res
}

func main() {
	fl := flag.Int("flevels", 3, "maximal number of filter levels")
	nl := flag.Int("nlevels", 4, "maximal number of name levels")
	flag.Parse()
	out := bufio.NewWriterSize(os.Stdout, 1<<20)
	defer out.Flush()
	filters := enum([]string{"a", "b", "", "+", "#"}, *fl)
	names := enum([]string{"a", "b", ""}, *nl)
	for _, f := range filters {
		for _, n := range names {
			b := "0"
			func() {
				defer func() { // the matcher runs in the client's receive loop: a panic kills the process
					if r := recover(); r != nil {
						b = "PANIC"
					}
				}()
				if client.VerifMatch(strings.Split(f, "/"), strings.Split(n, "/")) {
					b = "1"
				}
			}()
			fmt.Fprintf(out, "M %s %s %s\n", vh.HexS(f), vh.HexS(n), b)
		}
	}
}
