package mqttref

import (
	"bytes"
	"reflect"
	"strings"
	"testing"

	paho "github.com/eclipse/paho.mqtt.golang/packets"

	"verifharness/vh"
)

// samples has at least one packet of every type, valid ones first.
var samples = []Packet{
	{Type: CONNECT, ProtoName: "MQTT", ProtoLevel: 4, CleanSession: true, KeepAlive: 60, ClientID: "cl"},
	{Type: CONNECT, ProtoName: "MQTT", ProtoLevel: 4, KeepAlive: 65535, ClientID: "", Will: true, WillQoS: 2, WillRetain: true,
		WillTopic: "w/t", WillMsg: "bye\x00\xff", UserFlag: true, User: "u", PassFlag: true, Pass: "p\x00\xfe"},
	{Type: CONNACK, SessionPresent: true, ReturnCode: 0},
	{Type: CONNACK, ReturnCode: 5},
	{Type: PUBLISH, Topic: "a/b", Payload: "hello"},
	{Type: PUBLISH, Dup: true, QoS: 1, Retain: true, Topic: "a", MID: 7, Payload: ""},
	{Type: PUBLISH, QoS: 2, Topic: "t", MID: 65535, Payload: strings.Repeat("x", 20000)},
	{Type: PUBACK, MID: 1}, {Type: PUBREC, MID: 2}, {Type: PUBREL, MID: 3}, {Type: PUBCOMP, MID: 4},
	{Type: SUBSCRIBE, MID: 9, Filters: []Filter{{"a/+", 1}, {"#", 0}, {"b", 2}}},
	{Type: SUBACK, MID: 9, Codes: "\x01\x00\x80"},
	{Type: UNSUBSCRIBE, MID: 10, Filters: []Filter{{Topic: "a/+"}, {Topic: "b"}}},
	{Type: UNSUBACK, MID: 10},
	{Type: PINGREQ}, {Type: PINGRESP}, {Type: DISCONNECT},
}

// invalid packets which the wire format (and Encode) can still carry, with the expected rules.
var invalid = []struct {
	p   Packet
	bad string
}{
	{Packet{Type: PUBLISH, QoS: 3, Topic: "t", MID: 5, Payload: "x"}, "qos3"},
	{Packet{Type: PUBLISH, QoS: 1, Topic: "", MID: 0}, "mid0,empty-topic"},
	{Packet{Type: PUBLISH, Topic: "a/+/#\xff"}, "wildcard-topic,utf8"},
	{Packet{Type: PUBLISH, Topic: "a\x00"}, "utf8"},
	{Packet{Type: PUBLISH, Topic: "\xed\xa0\x80"}, "utf8"}, // encoded surrogate
	{Packet{Type: PUBACK}, "mid0"}, {Packet{Type: PUBREC}, "mid0"}, {Packet{Type: PUBREL}, "mid0"},
	{Packet{Type: PUBCOMP}, "mid0"}, {Packet{Type: SUBACK, Codes: "\x00"}, "mid0"}, {Packet{Type: UNSUBACK}, "mid0"},
	{Packet{Type: SUBSCRIBE, MID: 0}, "mid0,no-filters"},
	{Packet{Type: SUBSCRIBE, MID: 1, Dup: true, Filters: []Filter{{"", 3}, {"", 0}}}, "flags,sub-qos,empty-filter"},
	{Packet{Type: UNSUBSCRIBE, MID: 1}, "no-filters"},
	{Packet{Type: UNSUBSCRIBE, MID: 1, Filters: []Filter{{Topic: ""}, {Topic: "\xc0"}}}, "empty-filter,utf8"},
	{Packet{Type: CONNECT, ProtoName: "MQIsdp", ProtoLevel: 3, ClientID: "c"}, "proto"},
	{Packet{Type: CONNECT, ProtoName: "MQTT", ProtoLevel: 4, WillQoS: 3, WillRetain: true}, "will-flags,will-qos"},
	{Packet{Type: CONNECT, ProtoName: "MQTT", ProtoLevel: 4, Will: true, PassFlag: true, Pass: "x"}, "pass-without-user,will-empty-topic"},
	{Packet{Type: CONNECT, ProtoName: "MQTT", ProtoLevel: 4, ClientID: "\xff", UserFlag: true, User: "\x00"}, "utf8"},
}

func feedOne(t *testing.T, b []byte) Result {
	t.Helper()
	var ps Parser
	rs := ps.Feed(b)
	if len(rs) != 1 || len(ps.Pending()) != 0 || !bytes.Equal(rs[0].Raw, b) {
		t.Fatalf("Feed(%x) gave %d results, pending %x", b, len(rs), ps.Pending())
	}
	return rs[0]
}

func TestRoundTrip(t *testing.T) {
	for _, p := range samples {
		r := feedOne(t, Encode(p))
		if r.Garbage || len(r.Bad) != 0 || !reflect.DeepEqual(r.Packet, p) {
			t.Errorf("%s: round trip gave %+v", Spec(p), r)
		}
		q, err := ParseSpec(Spec(p))
		if err != nil || !reflect.DeepEqual(q, p) {
			t.Errorf("ParseSpec(%q) = %+v, %v", Spec(p), q, err)
		}
	}
	for _, c := range invalid {
		r := feedOne(t, Encode(c.p))
		if r.Garbage || strings.Join(r.Bad, ",") != c.bad || !reflect.DeepEqual(r.Packet, c.p) {
			t.Errorf("%s: want rules %q, got %+v", Spec(c.p), c.bad, r)
		}
		if c.p.Type == CONNECT && c.p.ProtoLevel != 4 {
			continue // the text form does not carry the protocol name and level
		}
		if q, err := ParseSpec(Spec(c.p)); err != nil || !reflect.DeepEqual(q, c.p) {
			t.Errorf("ParseSpec(%q) = %+v, %v", Spec(c.p), q, err)
		}
	}
}

func TestSpecText(t *testing.T) {
	for _, c := range []struct {
		p Packet
		s string
	}{
		{samples[1], "CONNECT clean=0 keepalive=65535 cid=x will=1 wqos=2 wretain=1 wtopic=x772f74 wmsg=x62796500ff uflag=1 user=x75 pflag=1 pass=x7000fe"},
		{samples[2], "CONNACK sp=1 rc=0"},
		{samples[4], "PUBLISH dup=0 qos=0 retain=0 topic=x612f62 mid=0 payload=x68656c6c6f"},
		{samples[5], "PUBLISH dup=1 qos=1 retain=1 topic=x61 mid=7 payload=x"},
		{samples[9], "PUBREL mid=3"},
		{samples[11], "SUBSCRIBE mid=9 dup=0 filters=x612f2b:1,x23:0,x62:2"},
		{samples[12], "SUBACK mid=9 codes=x010080"},
		{samples[13], "UNSUBSCRIBE mid=10 filters=x612f2b,x62"},
		{Packet{Type: SUBSCRIBE, MID: 1}, "SUBSCRIBE mid=1 dup=0 filters="},
		{samples[15], "PINGREQ"},
	} {
		if got := Spec(c.p); got != c.s {
			t.Errorf("Spec = %q, want %q", got, c.s)
		}
	}
	for _, s := range []string{"", "FOO", "PUBACK", "PUBACK mid=x", "PUBACK mid=65536", "PUBACK id=1", "PUBACK mid=1 x=2",
		"PINGREQ x=1", "CONNACK rc=0 sp=0", "CONNACK sp=2 rc=0", "PUBLISH dup=0 qos=4 retain=0 topic=x mid=0 payload=x",
		"PUBLISH dup=0 qos=0 retain=0 topic=61 mid=0 payload=x", "SUBSCRIBE mid=1 dup=0 filters=x61", "SUBSCRIBE mid=1 dup=0 filters=x61:z"} {
		if p, err := ParseSpec(s); err == nil {
			t.Errorf("ParseSpec(%q) accepted: %+v", s, p)
		}
	}
}

// Violations and garbage that Encode cannot produce: hand-made bytes.
func TestRawRulesAndGarbage(t *testing.T) {
	connect := func(flags byte, tail string) string {
		return "\x00\x04MQTT\x04" + string(flags) + "\x00\x0a\x00\x01c" + tail
	}
	frame := func(first byte, body string) []byte { return append([]byte{first, byte(len(body))}, body...) }
	for _, c := range []struct {
		b    []byte
		want string // rule names, or "GARBAGE"
	}{
		{frame(0x10, connect(0x02, "")), ""},
		{frame(0x10, connect(0x03, "")), "connect-reserved"},
		{frame(0x11, connect(0x02, "")), "flags"},
		{frame(0x10, connect(0x02, "zz")), "trailing"},
		{frame(0x10, connect(0x04, "\x00\x01t")), "GARBAGE"}, // will message missing
		{frame(0x10, "\x00\x04MQ"), "GARBAGE"},
		{frame(0x20, "\x02\x00"), "connack-reserved"},
		{frame(0x20, "\x00"), "GARBAGE"},
		{frame(0x40, "\x00\x01"), ""},
		{frame(0x42, "\x00\x01"), "flags"},
		{frame(0x40, "\x00\x01\x00"), "trailing"},
		{frame(0x40, "\x01"), "GARBAGE"},
		{frame(0x60, "\x00\x01"), "flags"}, // PUBREL must be 0010
		{frame(0x62, "\x00\x01"), ""},
		{frame(0x80, "\x00\x01\x00\x01a\x00"), "flags"},
		{frame(0x82, "\x00\x01\x00\x01a"), "GARBAGE"}, // requested QoS missing
		{frame(0xa0, "\x00\x01\x00\x01a"), "flags"},
		{frame(0xa2, "\x00\x01\x00\x05a"), "GARBAGE"},
		{frame(0x32, "\x00\x01a"), "GARBAGE"}, // packet identifier missing
		{frame(0x30, "\x00"), "GARBAGE"},
		{frame(0xc0, "x"), "trailing"},
		{frame(0xd1, ""), "flags"},
		{frame(0xe0, ""), ""},
		{frame(0x00, "abc"), "GARBAGE"}, // reserved types
		{frame(0xf0, ""), "GARBAGE"},
	} {
		r := feedOne(t, c.b)
		got := strings.Join(r.Bad, ",")
		if r.Garbage {
			got = "GARBAGE"
		}
		if got != c.want {
			t.Errorf("%x: got %q want %q", c.b, got, c.want)
		}
	}
}

func TestIncrementalAndFraming(t *testing.T) {
	var all []byte
	for _, p := range samples {
		all = append(all, Encode(p)...)
	}
	// Byte by byte, then in odd chunks: same packets.
	for _, chunk := range []int{1, 7, 4096, len(all)} {
		var ps Parser
		var got []Packet
		for i := 0; i < len(all); i += chunk {
			for _, r := range ps.Feed(all[i:min(i+chunk, len(all))]) {
				if r.Garbage || len(r.Bad) > 0 {
					t.Fatalf("chunk %d: unexpected %+v", chunk, r)
				}
				got = append(got, r.Packet)
			}
		}
		if !reflect.DeepEqual(got, samples) || len(ps.Pending()) != 0 {
			t.Fatalf("chunk %d: got %d packets", chunk, len(got))
		}
	}
	// An unknown type is skipped as one frame; framing continues after it.
	var ps Parser
	rs := ps.Feed([]byte{0xf0, 0x02, 1, 2, 0xc0, 0x00, 0xd0})
	if len(rs) != 2 || !rs[0].Garbage || len(rs[0].Raw) != 4 || rs[1].Packet.Type != PINGREQ || !bytes.Equal(ps.Pending(), []byte{0xd0}) {
		t.Fatalf("%+v pending %x", rs, ps.Pending())
	}
	// A remaining length of more than four bytes kills the stream.
	ps = Parser{}
	if rs = ps.Feed([]byte{0x30, 0x80, 0x80, 0x80}); len(rs) != 0 {
		t.Fatalf("%+v", rs)
	}
	rs = ps.Feed([]byte{0x80, 0x01})
	if len(rs) != 1 || !rs[0].Garbage || len(rs[0].Raw) != 6 {
		t.Fatalf("%+v", rs)
	}
	if rs = ps.Feed(Encode(samples[0])); len(rs) != 1 || !rs[0].Garbage {
		t.Fatalf("after bad length: %+v", rs)
	}
	// Largest length encodings.
	for _, n := range []int{0, 127, 128, 16383, 16384, 2097151, 2097152} {
		p := Packet{Type: PUBLISH, Topic: "t", Payload: strings.Repeat("p", n)}
		b := Encode(p)
		if r := feedOne(t, b); r.Garbage || len(r.Packet.Payload) != n {
			t.Fatalf("payload %d", n)
		}
	}
}

// ---------------------------------------------------------------- paho cross-check

func toPaho(p Packet) paho.ControlPacket {
	cp := paho.NewControlPacket(byte(p.Type))
	switch c := cp.(type) {
	case *paho.ConnectPacket:
		c.ProtocolName, c.ProtocolVersion, c.CleanSession, c.Keepalive, c.ClientIdentifier = p.ProtoName, p.ProtoLevel, p.CleanSession, p.KeepAlive, p.ClientID
		c.WillFlag, c.WillQos, c.WillRetain, c.WillTopic, c.WillMessage = p.Will, p.WillQoS, p.WillRetain, p.WillTopic, []byte(p.WillMsg)
		c.UsernameFlag, c.Username, c.PasswordFlag, c.Password = p.UserFlag, p.User, p.PassFlag, []byte(p.Pass)
	case *paho.ConnackPacket:
		c.SessionPresent, c.ReturnCode = p.SessionPresent, p.ReturnCode
	case *paho.PublishPacket:
		c.Dup, c.Qos, c.Retain, c.TopicName, c.MessageID, c.Payload = p.Dup, p.QoS, p.Retain, p.Topic, p.MID, []byte(p.Payload)
	case *paho.PubackPacket:
		c.MessageID = p.MID
	case *paho.PubrecPacket:
		c.MessageID = p.MID
	case *paho.PubrelPacket:
		c.MessageID = p.MID
	case *paho.PubcompPacket:
		c.MessageID = p.MID
	case *paho.UnsubackPacket:
		c.MessageID = p.MID
	case *paho.SubscribePacket:
		c.MessageID, c.Dup = p.MID, p.Dup
		for _, f := range p.Filters {
			c.Topics, c.Qoss = append(c.Topics, f.Topic), append(c.Qoss, f.QoS)
		}
	case *paho.SubackPacket:
		c.MessageID, c.ReturnCodes = p.MID, []byte(p.Codes)
	case *paho.UnsubscribePacket:
		c.MessageID = p.MID
		for _, f := range p.Filters {
			c.Topics = append(c.Topics, f.Topic)
		}
	}
	return cp
}

// fromPaho converts what paho decoded back (fixed-header flags of non-PUBLISH packets are not compared).
func fromPaho(cp paho.ControlPacket) Packet {
	switch c := cp.(type) {
	case *paho.ConnectPacket:
		return Packet{Type: CONNECT, ProtoName: c.ProtocolName, ProtoLevel: c.ProtocolVersion, CleanSession: c.CleanSession,
			KeepAlive: c.Keepalive, ClientID: c.ClientIdentifier, Will: c.WillFlag, WillQoS: c.WillQos, WillRetain: c.WillRetain,
			WillTopic: c.WillTopic, WillMsg: string(c.WillMessage), UserFlag: c.UsernameFlag, User: c.Username,
			PassFlag: c.PasswordFlag, Pass: string(c.Password)}
	case *paho.ConnackPacket:
		return Packet{Type: CONNACK, SessionPresent: c.SessionPresent, ReturnCode: c.ReturnCode}
	case *paho.PublishPacket:
		return Packet{Type: PUBLISH, Dup: c.Dup, QoS: c.Qos, Retain: c.Retain, Topic: c.TopicName, MID: c.MessageID, Payload: string(c.Payload)}
	case *paho.PubackPacket:
		return Packet{Type: PUBACK, MID: c.MessageID}
	case *paho.PubrecPacket:
		return Packet{Type: PUBREC, MID: c.MessageID}
	case *paho.PubrelPacket:
		return Packet{Type: PUBREL, MID: c.MessageID}
	case *paho.PubcompPacket:
		return Packet{Type: PUBCOMP, MID: c.MessageID}
	case *paho.UnsubackPacket:
		return Packet{Type: UNSUBACK, MID: c.MessageID}
	case *paho.SubscribePacket:
		p := Packet{Type: SUBSCRIBE, MID: c.MessageID, Dup: c.Dup}
		for i := range c.Topics {
			p.Filters = append(p.Filters, Filter{c.Topics[i], c.Qoss[i]})
		}
		return p
	case *paho.SubackPacket:
		return Packet{Type: SUBACK, MID: c.MessageID, Codes: string(c.ReturnCodes)}
	case *paho.UnsubscribePacket:
		p := Packet{Type: UNSUBSCRIBE, MID: c.MessageID}
		for _, t := range c.Topics {
			p.Filters = append(p.Filters, Filter{Topic: t})
		}
		return p
	case *paho.PingreqPacket:
		return Packet{Type: PINGREQ}
	case *paho.PingrespPacket:
		return Packet{Type: PINGRESP}
	case *paho.DisconnectPacket:
		return Packet{Type: DISCONNECT}
	}
	return Packet{}
}

func allCases() []Packet {
	ps := append([]Packet{}, samples...)
	for _, c := range invalid {
		ps = append(ps, c.p)
	}
	return ps
}

func TestPahoDecodesEncode(t *testing.T) {
	for _, p := range allCases() {
		b := Encode(p)
		cp, err := paho.ReadPacket(bytes.NewReader(b))
		if err != nil {
			t.Errorf("%s: paho cannot read %x: %v", Spec(p), b[:min(len(b), 40)], err)
			continue
		}
		if p.Type == UNSUBSCRIBE {
			// paho's UNSUBSCRIBE decoder stops at the first empty topic filter.
			for i, f := range p.Filters {
				if f.Topic == "" {
					p.Filters = p.Filters[:i:i]
					if i == 0 {
						p.Filters = nil
					}
					break
				}
			}
		}
		if got := fromPaho(cp); !reflect.DeepEqual(got, p) {
			t.Errorf("paho decoded %s as %s", Spec(p), Spec(got))
		}
	}
}

func TestFeedParsesPaho(t *testing.T) {
	var stream bytes.Buffer
	var want []Packet
	for _, p := range allCases() {
		var one bytes.Buffer
		if err := toPaho(p).Write(&one); err != nil {
			t.Fatal(err)
		}
		// paho writes the same bytes as Encode (a SUBSCRIBE with DUP included)...
		if !bytes.Equal(one.Bytes(), Encode(p)) {
			t.Errorf("%s: paho wrote %s, Encode %s", Spec(p), vh.Hex(one.Bytes()), vh.Hex(Encode(p)))
		}
		stream.Write(one.Bytes())
		want = append(want, p)
	}
	// ...and Feed reads paho's stream.
	var ps Parser
	var got []Packet
	for _, r := range ps.Feed(stream.Bytes()) {
		if r.Garbage {
			t.Fatalf("garbage %x", r.Raw)
		}
		got = append(got, r.Packet)
	}
	if !reflect.DeepEqual(got, want) {
		t.Fatalf("Feed read %d packets from paho's stream, want %d", len(got), len(want))
	}
}
