// Package mqttref is a small MQTT 3.1.1 codec written from the OASIS
// specification, independent of the paho library used by bisquitt. It is the
// reference the verification harness uses to judge what the gateway writes to
// the broker, and to encode what the fake broker sends to the gateway.
//
//   - Parser frames and decodes a byte stream and lists the violated rules,
//   - Encode produces wire bytes (also for invalid values the format can carry),
//   - Spec / ParseSpec convert to and from the <mqspec> text of FORMATS.md.
package mqttref

import (
	"encoding/binary"
	"errors"
	"fmt"
	"strconv"
	"strings"
	"unicode/utf8"

	"verifharness/vh"
)

// Type is the MQTT control packet type (high nibble of the first byte).
type Type byte

const (
	CONNECT Type = iota + 1
	CONNACK
	PUBLISH
	PUBACK
	PUBREC
	PUBREL
	PUBCOMP
	SUBSCRIBE
	SUBACK
	UNSUBSCRIBE
	UNSUBACK
	PINGREQ
	PINGRESP
	DISCONNECT
)

var typeNames = [...]string{"", "CONNECT", "CONNACK", "PUBLISH", "PUBACK", "PUBREC", "PUBREL", "PUBCOMP",
	"SUBSCRIBE", "SUBACK", "UNSUBSCRIBE", "UNSUBACK", "PINGREQ", "PINGRESP", "DISCONNECT"}

func (t Type) String() string {
	if t >= CONNECT && t <= DISCONNECT {
		return typeNames[t]
	}
	return "TYPE" + strconv.Itoa(int(t))
}

// Filter is one SUBSCRIBE (topic filter, requested QoS) pair; QoS is unused in UNSUBSCRIBE.
type Filter struct {
	Topic string
	QoS   byte
}

// Packet holds the fields of every packet type; a field is meaningful only for
// the types named in its comment. All byte strings (also binary ones such as
// payloads) are Go strings, so Packets can be compared with reflect.DeepEqual.
type Packet struct {
	Type Type

	Dup    bool // PUBLISH; SUBSCRIBE (bit 3 of the fixed header, which paho lets callers set)
	QoS    byte // PUBLISH (0..3)
	Retain bool // PUBLISH

	MID uint16 // PUBLISH (qos>0), PUBACK, PUBREC, PUBREL, PUBCOMP, SUBSCRIBE, SUBACK, UNSUBSCRIBE, UNSUBACK

	Topic   string // PUBLISH
	Payload string // PUBLISH

	Filters []Filter // SUBSCRIBE, UNSUBSCRIBE
	Codes   string   // SUBACK return codes, one byte each

	SessionPresent bool // CONNACK
	ReturnCode     byte // CONNACK

	// CONNECT
	ProtoName    string // "MQTT"
	ProtoLevel   byte   // 4
	CleanSession bool
	KeepAlive    uint16
	ClientID     string
	Will         bool
	WillQoS      byte
	WillRetain   bool
	WillTopic    string // on the wire only if Will
	WillMsg      string // on the wire only if Will
	UserFlag     bool
	User         string // on the wire only if UserFlag
	PassFlag     bool
	Pass         string // on the wire only if PassFlag
}

func b2i(b bool) byte {
	if b {
		return 1
	}
	return 0
}

// ---------------------------------------------------------------- encoding

// flags returns the fixed-header flags nibble Encode uses.
func (p Packet) flags() byte {
	switch p.Type {
	case PUBLISH:
		return b2i(p.Dup)<<3 | (p.QoS&3)<<1 | b2i(p.Retain)
	case SUBSCRIBE:
		return b2i(p.Dup)<<3 | 2
	case PUBREL, UNSUBSCRIBE:
		return 2
	}
	return 0
}

func appendU16(b []byte, v uint16) []byte { return append(b, byte(v>>8), byte(v)) }

// appendStr appends a length-prefixed string (the length is truncated to 16 bits).
func appendStr(b []byte, s string) []byte { return append(appendU16(b, uint16(len(s))), s...) }

// hasMID tells whether a PUBLISH carries a packet identifier. The
// specification defines it for QoS 1 and 2 only; for the invalid QoS 3 we
// follow the common reading "QoS > 0" (paho does the same).
func (p Packet) hasMID() bool { return p.QoS > 0 }

// Encode returns the wire form of p. It does not validate: PUBLISH with QoS 3,
// packet identifier 0, empty topics etc. are encoded as they are.
func Encode(p Packet) []byte {
	var b []byte
	switch p.Type {
	case CONNECT:
		b = appendStr(b, p.ProtoName)
		b = append(b, p.ProtoLevel, b2i(p.UserFlag)<<7|b2i(p.PassFlag)<<6|b2i(p.WillRetain)<<5|
			(p.WillQoS&3)<<3|b2i(p.Will)<<2|b2i(p.CleanSession)<<1)
		b = appendStr(appendU16(b, p.KeepAlive), p.ClientID)
		if p.Will {
			b = appendStr(appendStr(b, p.WillTopic), p.WillMsg)
		}
		if p.UserFlag {
			b = appendStr(b, p.User)
		}
		if p.PassFlag {
			b = appendStr(b, p.Pass)
		}
	case CONNACK:
		b = append(b, b2i(p.SessionPresent), p.ReturnCode)
	case PUBLISH:
		b = appendStr(b, p.Topic)
		if p.hasMID() {
			b = appendU16(b, p.MID)
		}
		b = append(b, p.Payload...)
	case PUBACK, PUBREC, PUBREL, PUBCOMP, UNSUBACK:
		b = appendU16(b, p.MID)
	case SUBSCRIBE:
		b = appendU16(b, p.MID)
		for _, f := range p.Filters {
			b = append(appendStr(b, f.Topic), f.QoS)
		}
	case SUBACK:
		b = append(appendU16(b, p.MID), p.Codes...)
	case UNSUBSCRIBE:
		b = appendU16(b, p.MID)
		for _, f := range p.Filters {
			b = appendStr(b, f.Topic)
		}
	}
	h := []byte{byte(p.Type)<<4 | p.flags()}
	for n := len(b); ; {
		d := byte(n % 128)
		if n /= 128; n > 0 {
			h = append(h, d|0x80)
		} else {
			h = append(h, d)
			break
		}
	}
	return append(h, b...)
}

// ---------------------------------------------------------------- parsing

// Result is one item recognised in the byte stream.
type Result struct {
	Raw     []byte   // the bytes this result covers
	Garbage bool     // the bytes could not be framed or parsed; Packet and Bad are unset
	Packet  Packet   // the decoded packet
	Bad     []string // names of the violated MQTT 3.1.1 rules, in checking order; empty = valid
}

// Parser is an incremental MQTT 3.1.1 stream parser.
type Parser struct {
	buf  []byte
	dead bool // framing was lost: everything that follows is garbage
}

// Pending returns the bytes of the incomplete packet at the end of the stream.
func (ps *Parser) Pending() []byte { return ps.buf }

// Feed appends b to the stream and returns a Result for every packet completed by it.
func (ps *Parser) Feed(b []byte) []Result {
	var out []Result
	if ps.dead {
		if len(b) > 0 {
			out = append(out, Result{Raw: append([]byte{}, b...), Garbage: true})
		}
		return out
	}
	ps.buf = append(ps.buf, b...)
	for len(ps.buf) >= 2 {
		// Remaining length: 1..4 bytes, 7 bits each, least significant first.
		rl, n, done := 0, 1, false
		for ; n < len(ps.buf) && n <= 4 && !done; n++ {
			rl |= int(ps.buf[n]&0x7f) << (7 * (n - 1))
			done = ps.buf[n]&0x80 == 0
		}
		if !done {
			if n <= 4 {
				break // need more bytes
			}
			ps.dead = true // a fifth length byte: malformed, the stream cannot be framed any more
			out = append(out, Result{Raw: ps.buf, Garbage: true})
			ps.buf = nil
			break
		}
		if len(ps.buf) < n+rl {
			break
		}
		frame := append([]byte{}, ps.buf[:n+rl]...)
		ps.buf = ps.buf[n+rl:]
		r := Result{Raw: frame}
		var err error
		if r.Packet, r.Bad, err = decode(frame[0], frame[n:]); err != nil {
			r = Result{Raw: frame, Garbage: true}
		}
		out = append(out, r)
	}
	return out
}

var errTruncated = errors.New("truncated packet")

// reader consumes the variable header and payload of one frame.
type reader struct {
	b   []byte
	err error
}

func (r *reader) take(n int) []byte {
	if r.err != nil || len(r.b) < n {
		r.err = errTruncated
		return make([]byte, n)
	}
	x := r.b[:n]
	r.b = r.b[n:]
	return x
}
func (r *reader) u8() byte    { return r.take(1)[0] }
func (r *reader) u16() uint16 { return binary.BigEndian.Uint16(r.take(2)) }
func (r *reader) str() string { return string(r.take(int(r.u16()))) }
func (r *reader) rest() string {
	x := r.b
	r.b = nil
	return string(x)
}

// rules collects violated rule names without duplicates.
type rules []string

func (v *rules) add(cond bool, name string) {
	if !cond {
		return
	}
	for _, s := range *v {
		if s == name {
			return
		}
	}
	*v = append(*v, name)
}

// utf8 checks an "UTF-8 encoded string" (MQTT 3.1.1 section 1.5.3): well formed
// UTF-8 (which excludes encoded surrogates) without U+0000.
func (v *rules) utf8(s string) {
	v.add(!utf8.ValidString(s) || strings.ContainsRune(s, 0), "utf8")
}

// decode parses one frame: first is the first byte of the fixed header, body
// what follows the remaining length. An error means garbage.
func decode(first byte, body []byte) (Packet, []string, error) {
	p := Packet{Type: Type(first >> 4)}
	flags := first & 0x0f
	if p.Type < CONNECT || p.Type > DISCONNECT {
		return p, nil, fmt.Errorf("reserved packet type %d", p.Type)
	}
	var v rules
	r := &reader{b: body}
	trailing := true // whether left-over bytes are a violation (false where the payload takes the rest)

	switch p.Type {
	case PUBLISH:
		p.Dup, p.QoS, p.Retain = flags&8 != 0, flags>>1&3, flags&1 != 0
		v.add(p.QoS == 3, "qos3")
	case SUBSCRIBE:
		p.Dup = flags&8 != 0
		v.add(flags != 2, "flags")
	case PUBREL, UNSUBSCRIBE:
		v.add(flags != 2, "flags")
	default:
		v.add(flags != 0, "flags")
	}

	switch p.Type {
	case CONNECT:
		p.ProtoName, p.ProtoLevel = r.str(), r.u8()
		cf := r.u8()
		p.UserFlag, p.PassFlag, p.WillRetain = cf&0x80 != 0, cf&0x40 != 0, cf&0x20 != 0
		p.WillQoS, p.Will, p.CleanSession = cf>>3&3, cf&4 != 0, cf&2 != 0
		p.KeepAlive, p.ClientID = r.u16(), r.str()
		v.add(p.ProtoName != "MQTT" || p.ProtoLevel != 4, "proto")
		v.add(cf&1 != 0, "connect-reserved")
		v.add(!p.Will && (p.WillQoS != 0 || p.WillRetain), "will-flags")
		v.add(p.WillQoS == 3, "will-qos")
		v.add(p.PassFlag && !p.UserFlag, "pass-without-user")
		v.utf8(p.ProtoName)
		v.utf8(p.ClientID)
		if p.Will {
			p.WillTopic, p.WillMsg = r.str(), r.str()
			v.add(p.WillTopic == "", "will-empty-topic")
			v.utf8(p.WillTopic)
		}
		if p.UserFlag {
			p.User = r.str()
			v.utf8(p.User)
		}
		if p.PassFlag {
			p.Pass = r.str()
		}
	case CONNACK:
		af := r.u8()
		p.SessionPresent, p.ReturnCode = af&1 != 0, r.u8()
		v.add(af&0xfe != 0, "connack-reserved")
	case PUBLISH:
		p.Topic = r.str()
		if p.hasMID() {
			p.MID = r.u16()
			v.add(p.MID == 0, "mid0")
		}
		p.Payload, trailing = r.rest(), false
		v.add(p.Topic == "", "empty-topic")
		v.add(strings.ContainsAny(p.Topic, "+#"), "wildcard-topic")
		v.utf8(p.Topic)
	case PUBACK, PUBREC, PUBREL, PUBCOMP, UNSUBACK:
		p.MID = r.u16()
		v.add(p.MID == 0, "mid0")
	case SUBSCRIBE, UNSUBSCRIBE:
		p.MID = r.u16()
		v.add(p.MID == 0, "mid0")
		for len(r.b) > 0 && r.err == nil {
			f := Filter{Topic: r.str()}
			if p.Type == SUBSCRIBE {
				f.QoS = r.u8()
				v.add(f.QoS > 2, "sub-qos")
			}
			v.add(f.Topic == "", "empty-filter")
			v.utf8(f.Topic)
			p.Filters = append(p.Filters, f)
		}
		v.add(len(p.Filters) == 0, "no-filters")
	case SUBACK:
		p.MID = r.u16()
		v.add(p.MID == 0, "mid0")
		p.Codes, trailing = r.rest(), false
	}
	if r.err != nil {
		return p, nil, r.err
	}
	v.add(trailing && len(r.b) > 0, "trailing")
	return p, v, nil
}

// ---------------------------------------------------------------- text form

// Spec renders p in the <mqspec> form of FORMATS.md.
func Spec(p Packet) string {
	switch p.Type {
	case CONNECT:
		return fmt.Sprintf("CONNECT clean=%d keepalive=%d cid=%s will=%d wqos=%d wretain=%d wtopic=%s wmsg=%s uflag=%d user=%s pflag=%d pass=%s",
			b2i(p.CleanSession), p.KeepAlive, vh.HexS(p.ClientID), b2i(p.Will), p.WillQoS, b2i(p.WillRetain),
			vh.HexS(p.WillTopic), vh.HexS(p.WillMsg), b2i(p.UserFlag), vh.HexS(p.User), b2i(p.PassFlag), vh.HexS(p.Pass))
	case CONNACK:
		return fmt.Sprintf("CONNACK sp=%d rc=%d", b2i(p.SessionPresent), p.ReturnCode)
	case PUBLISH:
		return fmt.Sprintf("PUBLISH dup=%d qos=%d retain=%d topic=%s mid=%d payload=%s",
			b2i(p.Dup), p.QoS, b2i(p.Retain), vh.HexS(p.Topic), p.MID, vh.HexS(p.Payload))
	case PUBACK, PUBREC, PUBREL, PUBCOMP, UNSUBACK:
		return fmt.Sprintf("%s mid=%d", p.Type, p.MID)
	case SUBSCRIBE, UNSUBSCRIBE:
		fs := make([]string, len(p.Filters))
		for i, f := range p.Filters {
			fs[i] = vh.HexS(f.Topic)
			if p.Type == SUBSCRIBE {
				fs[i] += ":" + strconv.Itoa(int(f.QoS))
			}
		}
		if p.Type == SUBSCRIBE {
			return fmt.Sprintf("SUBSCRIBE mid=%d dup=%d filters=%s", p.MID, b2i(p.Dup), strings.Join(fs, ","))
		}
		return fmt.Sprintf("UNSUBSCRIBE mid=%d filters=%s", p.MID, strings.Join(fs, ","))
	case SUBACK:
		return fmt.Sprintf("SUBACK mid=%d codes=%s", p.MID, vh.HexS(p.Codes))
	}
	return p.Type.String()
}

// specFields lists, per type, the keys of the <mqspec> tokens in order.
var specFields = map[Type]string{
	CONNECT: "clean keepalive cid will wqos wretain wtopic wmsg uflag user pflag pass",
	CONNACK: "sp rc", PUBLISH: "dup qos retain topic mid payload",
	PUBACK: "mid", PUBREC: "mid", PUBREL: "mid", PUBCOMP: "mid", UNSUBACK: "mid",
	SUBSCRIBE: "mid dup filters", SUBACK: "mid codes", UNSUBSCRIBE: "mid filters",
}

// ParseSpec is the inverse of Spec. A CONNECT gets protocol "MQTT" level 4.
func ParseSpec(s string) (Packet, error) {
	var p Packet
	tok := strings.Split(s, " ")
	for t := CONNECT; t <= DISCONNECT; t++ {
		if typeNames[t] == tok[0] {
			p.Type = t
		}
	}
	if p.Type == 0 {
		return p, fmt.Errorf("mqspec: unknown packet type in %q", s)
	}
	keys := strings.Fields(specFields[p.Type])
	if len(tok)-1 != len(keys) {
		return p, fmt.Errorf("mqspec: %s needs %d fields: %q", p.Type, len(keys), s)
	}
	var err error
	fail := func(e error) {
		if err == nil {
			err = e
		}
	}
	// Accessors for token i (1-based), which must have key keys[i-1].
	val := func(i int) string {
		v, ok := strings.CutPrefix(tok[i], keys[i-1]+"=")
		if !ok {
			fail(fmt.Errorf("mqspec: expected %s=... at field %d of %q", keys[i-1], i, s))
		}
		return v
	}
	num := func(i, bits int) uint64 {
		n, e := strconv.ParseUint(val(i), 10, bits)
		if e != nil {
			fail(fmt.Errorf("mqspec: bad number in %q of %q", tok[i], s))
		}
		return n
	}
	flag := func(i int) bool { return num(i, 1) == 1 }
	hex := func(v string) string {
		b, e := vh.UnHex(v)
		if e != nil {
			fail(fmt.Errorf("mqspec: %v in %q", e, s))
		}
		return string(b)
	}
	switch p.Type {
	case CONNECT:
		p.ProtoName, p.ProtoLevel = "MQTT", 4
		p.CleanSession, p.KeepAlive, p.ClientID = flag(1), uint16(num(2, 16)), hex(val(3))
		p.Will, p.WillQoS, p.WillRetain = flag(4), byte(num(5, 2)), flag(6)
		p.WillTopic, p.WillMsg = hex(val(7)), hex(val(8))
		p.UserFlag, p.User, p.PassFlag, p.Pass = flag(9), hex(val(10)), flag(11), hex(val(12))
	case CONNACK:
		p.SessionPresent, p.ReturnCode = flag(1), byte(num(2, 8))
	case PUBLISH:
		p.Dup, p.QoS, p.Retain = flag(1), byte(num(2, 2)), flag(3)
		p.Topic, p.MID, p.Payload = hex(val(4)), uint16(num(5, 16)), hex(val(6))
	case PUBACK, PUBREC, PUBREL, PUBCOMP, UNSUBACK:
		p.MID = uint16(num(1, 16))
	case SUBACK:
		p.MID, p.Codes = uint16(num(1, 16)), hex(val(2))
	case SUBSCRIBE, UNSUBSCRIBE:
		p.MID = uint16(num(1, 16))
		fi := 2
		if p.Type == SUBSCRIBE {
			p.Dup, fi = flag(2), 3
		}
		if fs := val(fi); fs != "" {
			for _, f := range strings.Split(fs, ",") {
				if p.Type == UNSUBSCRIBE {
					p.Filters = append(p.Filters, Filter{Topic: hex(f)})
					continue
				}
				t, q, ok := strings.Cut(f, ":")
				n, e := strconv.ParseUint(q, 10, 8)
				if !ok || e != nil {
					fail(fmt.Errorf("mqspec: bad filter %q in %q", f, s))
				}
				p.Filters = append(p.Filters, Filter{Topic: hex(t), QoS: byte(n)})
			}
		}
	}
	return p, err
}
