// Command drv_util prints observations of util.IDSequence and
// transactions.TransactionStore (format: ../FORMATS.md, "Utility observations").
//
//	go1.26 build -tags verif -o drv_util.bin ./drv_util
//	./drv_util.bin -seed 1 -n 200 [-full] > util.obs
//
// Q and ST lines are deterministic for a seed. QC and STC lines come from real
// concurrency; only their summaries (sorted ids, counts, flag) are printed.
package main

import (
	"bufio"
	"flag"
	"fmt"
	"os"
	"runtime"
	"slices"
	"strconv"
	"strings"
	"sync"
	"sync/atomic"

	"github.com/anishathalye/porcupine"
	pkts "github.com/energomonitor/bisquitt/packets"
	"github.com/energomonitor/bisquitt/transactions"
	"github.com/energomonitor/bisquitt/util"

	"verifharness/vh"
)

var (
	seedFlag = flag.Uint64("seed", 1, "PRNG seed")
	nFlag    = flag.Int("n", 100, "number of random Q ranges and of random ST sequences")
	fullFlag = flag.Bool("full", false, "also sweep the full ranges (1,65535) and (1,65534)")
)

var w = bufio.NewWriter(os.Stdout)

func b2i(b bool) int {
	if b {
		return 1
	}
	return 0
}

// ---------------------------------------------------------------- IDSequence

func qLine(min, max uint16, n int) {
	s := util.NewIDSequence(min, max)
	fmt.Fprintf(w, "Q %d %d %d :", min, max, n)
	for i := 0; i < n; i++ {
		id, ov := s.Next()
		fmt.Fprintf(w, " %d/%d", id, b2i(ov))
	}
	fmt.Fprintln(w)
}

func qLines(rng *vh.Rng) {
	for _, min := range []int{1, 2, 5, 65530, 65531, 65532, 65533, 65534, 65535} {
		for max := min; max <= min+6 && max <= 65535; max++ {
			qLine(uint16(min), uint16(max), 3*(max-min+1)+2)
		}
	}
	if *fullFlag {
		qLine(1, 65535, 65540)
		qLine(1, 65534, 65540)
	}
	for i := 0; i < *nFlag; i++ { // 1 <= min <= max <= 65535, mostly narrow, often near the top
		width := rng.Intn(20)
		if rng.Intn(8) == 0 {
			width = rng.Intn(300)
		}
		lo := 1 + rng.Intn(65535-width)
		if rng.Intn(3) == 0 {
			lo = 65535 - width - rng.Intn(3)
		}
		qLine(uint16(lo), uint16(lo+width), 1+rng.Intn(3*(width+1)+5))
	}
}

func qcLine(min, max uint16, g, percall int) {
	s := util.NewIDSequence(min, max)
	ids, ovs := make([][]uint16, g), make([]int, g)
	start := make(chan struct{})
	var wg sync.WaitGroup
	for i := 0; i < g; i++ {
		wg.Add(1)
		go func() {
			defer wg.Done()
			<-start
			for j := 0; j < percall; j++ {
				id, ov := s.Next()
				ids[i] = append(ids[i], id)
				ovs[i] += b2i(ov)
				if (i+j)%3 == 0 {
					runtime.Gosched()
				}
			}
		}()
	}
	close(start)
	wg.Wait()
	all, ov := slices.Concat(ids...), 0
	slices.Sort(all)
	strs := make([]string, len(all))
	for i, id := range all {
		strs[i] = strconv.Itoa(int(id))
	}
	for _, n := range ovs {
		ov += n
	}
	fmt.Fprintf(w, "QC %d %d %d %d : %s / %d\n", min, max, g, percall, strings.Join(strs, ","), ov)
}

func qcLines() {
	for _, g := range []int{2, 4, 8} {
		for _, r := range [][2]uint16{{1, 1}, {1, 3}, {1, 7}, {5, 8}, {65533, 65535}, {2, 40}} {
			qcLine(r[0], r[1], g, 5)
			qcLine(r[0], r[1], g, 50)
		}
		for _, r := range [][2]uint16{{1, 65535}, {64536, 65535}} { // g*percall capped at 2000
			qcLine(r[0], r[1], g, 2000/g)
		}
	}
}

// ---------------------------------------------------------------- TransactionStore

// txn is a dummy Transaction identified by its tag.
type txn struct{ tag string }

func (txn) Fail(error)            {}
func (txn) Success()              {}
func (txn) Done() <-chan struct{} { return nil }
func (txn) Err() error            { return nil }

var (
	stIDs   = []uint16{0, 1, 2, 65535}
	stTypes = []pkts.PacketType{pkts.CONNECT, pkts.PINGREQ, pkts.DISCONNECT} // 4, 22, 24
)

// stOp is one store operation: kind 0 = store, 1 = get, 2 = delete.
type stOp struct {
	kind   int
	byType bool
	key    int // packet id or packet type
	tag    string
}

func randOp(rng *vh.Rng, tag func() string) stOp {
	op := stOp{kind: rng.Intn(4), byType: rng.Bool()}
	if op.kind == 3 { // DeleteIf exists for message IDs only
		op.byType = false
	}
	if op.byType {
		op.key = int(stTypes[rng.Intn(len(stTypes))])
	} else {
		op.key = int(stIDs[rng.Intn(len(stIDs))])
	}
	if op.kind == 0 || op.kind == 3 {
		op.tag = tag()
	}
	return op
}

func (op stOp) String() string {
	s := []string{"S", "G", "D", "I"}[op.kind]
	if op.byType {
		s += "T"
	}
	s += strconv.Itoa(op.key)
	if op.kind == 0 || op.kind == 3 {
		s += "=" + op.tag
	}
	return s
}

// apply performs op on the real store; the result is a tag or "-".
func (op stOp) apply(ts *transactions.TransactionStore) string {
	var t transactions.Transaction
	var ok bool
	id, ty := uint16(op.key), pkts.PacketType(op.key)
	switch {
	case op.kind == 0 && op.byType:
		ts.StoreByType(ty, txn{op.tag})
	case op.kind == 0:
		ts.Store(id, txn{op.tag})
	case op.kind == 1 && op.byType:
		t, ok = ts.GetByType(ty)
	case op.kind == 1:
		t, ok = ts.Get(id)
	case op.kind == 3:
		ts.DeleteIf(id, txn{op.tag})
	case op.byType:
		ts.DeleteByType(ty)
	default:
		ts.Delete(id)
	}
	if ok {
		return t.(txn).tag
	}
	return "-"
}

func stLines(rng *vh.Rng) {
	for i := 0; i < *nFlag; i++ {
		ts := transactions.NewTransactionStore()
		var ops, res []string
		for n := 5 + rng.Intn(26); n > 0; n-- {
			op := randOp(rng, func() string { return string(rune('a' + rng.Intn(6))) })
			ops, res = append(ops, op.String()), append(res, op.apply(ts))
		}
		fmt.Fprintf(w, "ST %s : %s\n", strings.Join(ops, " "), strings.Join(res, " "))
	}
}

// stModel is the sequential specification: two independent maps, i.e. one
// register ("-" = absent) per key; histories are partitioned by key.
var stModel = porcupine.Model{
	Partition: func(h []porcupine.Operation) [][]porcupine.Operation {
		idx, parts := map[[2]int]int{}, [][]porcupine.Operation{}
		for _, o := range h {
			in := o.Input.(stOp)
			k := [2]int{b2i(in.byType), in.key}
			if _, ok := idx[k]; !ok {
				idx[k], parts = len(parts), append(parts, nil)
			}
			parts[idx[k]] = append(parts[idx[k]], o)
		}
		return parts
	},
	Init: func() any { return "-" },
	Step: func(state, input, output any) (bool, any) {
		switch in := input.(stOp); in.kind {
		case 0:
			return output == "-", in.tag
		case 1:
			return output == state, state
		case 3:
			if state == in.tag {
				return output == "-", "-"
			}
			return output == "-", state
		default:
			return output == "-", "-"
		}
	},
}

// stcLine runs g goroutines x k ops against one store. Timestamps are ticks of
// a shared atomic counter taken right before the call and right after the return.
func stcLine(g, k int, seed uint64) {
	rng := vh.NewRng(seed)
	plan := make([][]stOp, g)
	for i := range plan {
		last := map[[2]int]string{} // what this goroutine stored last under a key
		for j := 0; j < k; j++ { // unique tags: every Get names the Store it saw
			op := randOp(rng, func() string { return fmt.Sprintf("g%d.%d", i, j) })
			key := [2]int{b2i(op.byType), op.key}
			switch op.kind {
			case 0:
				last[key] = op.tag
			case 3:
				// DeleteIf names a transaction this goroutine stored itself (a finished transaction's
				// clean-up), while other goroutines store under the same key: compare-and-delete must be atomic
				if t, ok := last[key]; ok {
					op.tag = t
				}
			}
			plan[i] = append(plan[i], op)
		}
	}
	ts := transactions.NewTransactionStore()
	var clock atomic.Int64
	hist := make([][]porcupine.Operation, g)
	start := make(chan struct{})
	var wg sync.WaitGroup
	for i := 0; i < g; i++ {
		wg.Add(1)
		go func() {
			defer wg.Done()
			<-start
			for j, op := range plan[i] {
				call := clock.Add(1)
				out := op.apply(ts)
				ret := clock.Add(1)
				hist[i] = append(hist[i], porcupine.Operation{ClientId: i, Input: op, Call: call, Output: out, Return: ret})
				if (i+j)%5 == 0 {
					runtime.Gosched()
				}
			}
		}()
	}
	close(start)
	wg.Wait()
	ok := porcupine.CheckOperations(stModel, slices.Concat(hist...))
	fmt.Fprintf(w, "STC %d %d %d : linearizable=%d\n", g, k, seed, b2i(ok))
}

func stcLines(rng *vh.Rng) {
	for _, c := range [][2]int{{2, 20}, {2, 200}, {4, 50}, {4, 250}, {8, 25}, {8, 100}, {8, 400}} {
		stcLine(c[0], c[1], rng.U64()%1000000)
	}
}

// stdLine: the situation DeleteIf exists for, as a targeted race: a finished transaction's
// clean-up (DeleteIf(k, old)) runs while another goroutine stores a new transaction under the same
// key.  Whatever the order, an atomic map holds the new transaction afterwards.
func stdLine(rounds int) {
	lost := 0
	for r := 0; r < rounds; r++ {
		ts := transactions.NewTransactionStore()
		old, neu := txn{"old"}, txn{"new"}
		for k := uint16(1); k <= 8; k++ {
			ts.Store(k, old)
		}
		var ready, wg sync.WaitGroup
		start := make(chan struct{})
		ready.Add(2)
		wg.Add(2)
		go func() {
			defer wg.Done()
			ready.Done()
			<-start
			for k := uint16(1); k <= 8; k++ {
				ts.DeleteIf(k, old)
			}
		}()
		go func() {
			defer wg.Done()
			ready.Done()
			<-start
			for k := uint16(1); k <= 8; k++ {
				ts.Store(k, neu)
			}
		}()
		ready.Wait()
		close(start)
		wg.Wait()
		for k := uint16(1); k <= 8; k++ {
			if t, ok := ts.Get(k); !ok || t.(txn).tag != "new" {
				lost++
			}
		}
	}
	fmt.Fprintf(w, "STD rounds=%d lost=%d\n", rounds, lost)
}

func main() {
	flag.Parse()
	defer w.Flush()
	rng := vh.NewRng(*seedFlag)
	qLines(rng)
	qcLines()
	stLines(rng)
	stcLines(rng)
	stdLine(60 * *nFlag)
}
