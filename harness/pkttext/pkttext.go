// Package pkttext renders MQTT-SN packets of /repo's packets1 package in the
// canonical text form shared with the OCaml model driver, and builds packets
// from that form through the exported constructors and setters.
//
//	Publish dup=1 qos=2 retain=0 tit=1 tid=5 mid=7 data=x00ff
package pkttext

import (
	"fmt"
	"strconv"
	"strings"

	pkts "github.com/energomonitor/bisquitt/packets"
	p1 "github.com/energomonitor/bisquitt/packets1"
	"verifharness/vh"
)

func b2i(b bool) int {
	if b {
		return 1
	}
	return 0
}

// Text renders a packet.
func Text(pkt pkts.Packet) string {
	switch p := pkt.(type) {
	case *p1.Advertise:
		return fmt.Sprintf("Advertise gw=%d dur=%d", p.GatewayID, p.Duration)
	case *p1.SearchGw:
		return fmt.Sprintf("SearchGw radius=%d", p.Radius)
	case *p1.GwInfo:
		return fmt.Sprintf("GwInfo gw=%d addr=%s", p.GatewayID, vh.Hex(p.GatewayAddress))
	case *p1.Auth:
		return fmt.Sprintf("Auth reason=%d method=%s data=%s", p.Reason, vh.HexS(p.Method), vh.Hex(p.Data))
	case *p1.Connect:
		return fmt.Sprintf("Connect will=%d clean=%d proto=%d dur=%d cid=%s", b2i(p.Will), b2i(p.CleanSession),
			p.ProtocolID, p.Duration, vh.Hex(p.ClientID))
	case *p1.Connack:
		return fmt.Sprintf("Connack rc=%d", p.ReturnCode)
	case *p1.WillTopicReq:
		return "WillTopicReq"
	case *p1.WillTopic:
		return fmt.Sprintf("WillTopic qos=%d retain=%d topic=%s", p.QOS, b2i(p.Retain), vh.HexS(p.WillTopic))
	case *p1.WillMsgReq:
		return "WillMsgReq"
	case *p1.WillMsg:
		return fmt.Sprintf("WillMsg msg=%s", vh.Hex(p.WillMsg))
	case *p1.Register:
		return fmt.Sprintf("Register tid=%d mid=%d name=%s", p.TopicID, p.MessageID(), vh.HexS(p.TopicName))
	case *p1.Regack:
		return fmt.Sprintf("Regack tid=%d mid=%d rc=%d", p.TopicID, p.MessageID(), p.ReturnCode)
	case *p1.Publish:
		return fmt.Sprintf("Publish dup=%d qos=%d retain=%d tit=%d tid=%d mid=%d data=%s", b2i(p.DUP()), p.QOS,
			b2i(p.Retain), p.TopicIDType, p.TopicID, p.MessageID(), vh.Hex(p.Data))
	case *p1.Puback:
		return fmt.Sprintf("Puback tid=%d mid=%d rc=%d", p.TopicID, p.MessageID(), p.ReturnCode)
	case *p1.Pubcomp:
		return fmt.Sprintf("Pubcomp mid=%d", p.MessageID())
	case *p1.Pubrec:
		return fmt.Sprintf("Pubrec mid=%d", p.MessageID())
	case *p1.Pubrel:
		return fmt.Sprintf("Pubrel mid=%d", p.MessageID())
	case *p1.Subscribe:
		return fmt.Sprintf("Subscribe dup=%d qos=%d tit=%d mid=%d tid=%d name=%s", b2i(p.DUP()), p.QOS,
			p.TopicIDType, p.MessageID(), p.TopicID, vh.HexS(p.TopicName))
	case *p1.Suback:
		return fmt.Sprintf("Suback qos=%d tid=%d mid=%d rc=%d", p.QOS, p.TopicID, p.MessageID(), p.ReturnCode)
	case *p1.Unsubscribe:
		return fmt.Sprintf("Unsubscribe tit=%d mid=%d tid=%d name=%s", p.TopicIDType, p.MessageID(), p.TopicID,
			vh.HexS(p.TopicName))
	case *p1.Unsuback:
		return fmt.Sprintf("Unsuback mid=%d", p.MessageID())
	case *p1.Pingreq:
		return fmt.Sprintf("Pingreq cid=%s", vh.Hex(p.ClientID))
	case *p1.Pingresp:
		return "Pingresp"
	case *p1.Disconnect:
		return fmt.Sprintf("Disconnect dur=%d", p.Duration)
	case *p1.WillTopicUpd:
		return fmt.Sprintf("WillTopicUpd qos=%d retain=%d topic=%s", p.QOS, b2i(p.Retain), vh.HexS(p.WillTopic))
	case *p1.WillTopicResp:
		return fmt.Sprintf("WillTopicResp rc=%d", p.ReturnCode)
	case *p1.WillMsgUpd:
		return fmt.Sprintf("WillMsgUpd msg=%s", vh.Hex(p.WillMsg))
	case *p1.WillMsgResp:
		return fmt.Sprintf("WillMsgResp rc=%d", p.ReturnCode)
	default:
		return fmt.Sprintf("Unknown %T", pkt)
	}
}

type fields map[string]string

func (f fields) n(k string) uint64 {
	v, err := strconv.ParseUint(f[k], 10, 64)
	if err != nil {
		panic(fmt.Sprintf("field %s=%q: %v", k, f[k], err))
	}
	return v
}
func (f fields) b(k string) bool    { return f.n(k) != 0 }
func (f fields) x(k string) []byte  { return vh.MustUnHex(f[k]) }
func (f fields) s(k string) string  { return string(vh.MustUnHex(f[k])) }
func (f fields) u8(k string) uint8  { return uint8(f.n(k)) }
func (f fields) u16(k string) uint16 { return uint16(f.n(k)) }

// Build constructs a packet from its text through the exported constructors
// (and exported fields/setters where the constructor does not take the value).
func Build(text string) (pkts.Packet, error) {
	toks := strings.Split(text, " ")
	f := fields{}
	for _, t := range toks[1:] {
		kv := strings.SplitN(t, "=", 2)
		if len(kv) != 2 {
			return nil, fmt.Errorf("bad token %q", t)
		}
		f[kv[0]] = kv[1]
	}
	switch toks[0] {
	case "Advertise":
		return p1.NewAdvertise(f.u8("gw"), f.u16("dur")), nil
	case "SearchGw":
		return p1.NewSearchGw(f.u8("radius")), nil
	case "GwInfo":
		return p1.NewGwInfo(f.u8("gw"), f.x("addr")), nil
	case "Auth":
		// Only PLAIN has a constructor; other values go through the exported fields.
		p := p1.NewAuthPlain("", nil)
		p.Reason, p.Method, p.Data = f.u8("reason"), f.s("method"), f.x("data")
		return p, nil
	case "Connect":
		p := p1.NewConnect(f.u16("dur"), f.x("cid"), f.b("will"), f.b("clean"))
		p.ProtocolID = f.u8("proto")
		return p, nil
	case "Connack":
		return p1.NewConnack(p1.ReturnCode(f.u8("rc"))), nil
	case "WillTopicReq":
		return p1.NewWillTopicReq(), nil
	case "WillTopic":
		return p1.NewWillTopic(f.s("topic"), f.u8("qos"), f.b("retain")), nil
	case "WillMsgReq":
		return p1.NewWillMsgReq(), nil
	case "WillMsg":
		return p1.NewWillMsg(f.x("msg")), nil
	case "Register":
		p := p1.NewRegister(f.u16("tid"), f.s("name"))
		p.SetMessageID(f.u16("mid"))
		return p, nil
	case "Regack":
		p := p1.NewRegack(f.u16("tid"), p1.ReturnCode(f.u8("rc")))
		p.SetMessageID(f.u16("mid"))
		return p, nil
	case "Publish":
		p := p1.NewPublish(f.u16("tid"), f.x("data"), f.b("dup"), f.u8("qos"), f.b("retain"), f.u8("tit"))
		p.SetMessageID(f.u16("mid"))
		return p, nil
	case "Puback":
		p := p1.NewPuback(f.u16("tid"), p1.ReturnCode(f.u8("rc")))
		p.SetMessageID(f.u16("mid"))
		return p, nil
	case "Pubcomp":
		p := p1.NewPubcomp()
		p.SetMessageID(f.u16("mid"))
		return p, nil
	case "Pubrec":
		p := p1.NewPubrec()
		p.SetMessageID(f.u16("mid"))
		return p, nil
	case "Pubrel":
		p := p1.NewPubrel()
		p.SetMessageID(f.u16("mid"))
		return p, nil
	case "Subscribe":
		p := p1.NewSubscribe(f.s("name"), f.u16("tid"), f.b("dup"), f.u8("qos"), f.u8("tit"))
		p.SetMessageID(f.u16("mid"))
		return p, nil
	case "Suback":
		p := p1.NewSuback(f.u16("tid"), p1.ReturnCode(f.u8("rc")), f.u8("qos"))
		p.SetMessageID(f.u16("mid"))
		return p, nil
	case "Unsubscribe":
		p := p1.NewUnsubscribe(f.s("name"), f.u16("tid"), f.u8("tit"))
		p.SetMessageID(f.u16("mid"))
		return p, nil
	case "Unsuback":
		p := p1.NewUnsuback()
		p.SetMessageID(f.u16("mid"))
		return p, nil
	case "Pingreq":
		return p1.NewPingreq(f.x("cid")), nil
	case "Pingresp":
		return p1.NewPingresp(), nil
	case "Disconnect":
		return p1.NewDisconnect(f.u16("dur")), nil
	case "WillTopicUpd":
		return p1.NewWillTopicUpd(f.s("topic"), f.u8("qos"), f.b("retain")), nil
	case "WillTopicResp":
		return p1.NewWillTopicResp(p1.ReturnCode(f.u8("rc"))), nil
	case "WillMsgUpd":
		return p1.NewWillMsgUpd(f.x("msg")), nil
	case "WillMsgResp":
		return p1.NewWillMsgResp(p1.ReturnCode(f.u8("rc"))), nil
	}
	return nil, fmt.Errorf("unknown packet kind %q", toks[0])
}
