// drv_topics runs topics.PredefinedTopics lookups of /repo on generated
// configurations and prints one observation per line (C05, C32; merge/parse
// observations for C30 are printed by the same driver).
//
//	T <cfg> <client> N <id> <name|->            GetTopicName
//	T <cfg> <client> I <name> <id|-> <back|->   GetTopicID, and GetTopicName of the returned ID
package main

import (
	"strings"
	"bufio"
	"flag"
	"fmt"
	"os"
	"path/filepath"

	"github.com/energomonitor/bisquitt/topics"
	"verifharness/vh"
)

var out *bufio.Writer

func optS(s string, ok bool) string {
	if !ok {
		return "-"
	}
	return vh.HexS(s)
}

func queries(t topics.PredefinedTopics, clients, names []string, ids []uint16) int {
	cfg := vh.PredefString(t)
	n := 0
	for _, c := range clients {
		for _, id := range ids {
			name, ok := t.GetTopicName(c, id)
			fmt.Fprintf(out, "T %s %s N %d %s\n", cfg, vh.HexS(c), id, optS(name, ok))
			n++
		}
		for _, name := range names {
			// Go map iteration order varies: ask several times so different orders are seen.
			seen := map[string]bool{}
			for k := 0; k < 6; k++ {
				id, ok := t.GetTopicID(c, name)
				var line string
				if ok {
					back, ok2 := t.GetTopicName(c, id)
					line = fmt.Sprintf("T %s %s I %s %d %s", cfg, vh.HexS(c), vh.HexS(name), id, optS(back, ok2))
				} else {
					line = fmt.Sprintf("T %s %s I %s - -", cfg, vh.HexS(c), vh.HexS(name))
				}
				if !seen[line] {
					seen[line] = true
					fmt.Fprintln(out, line)
					n++
				}
			}
		}
	}
	return n
}

func main() {
	seed := flag.Uint64("seed", 1, "PRNG seed")
	count := flag.Int("n", 300, "number of generated configurations")
	repo := flag.String("repo", "/repo", "repository root (for testdata)")
	flag.Parse()
	out = bufio.NewWriter(os.Stdout)
	defer out.Flush()

	clientPool := []string{"c1", "c2", "*", "", "zz"}
	namePool := []string{"a", "b", "ab", "a/b", "", "t/+", "xy"}
	idPool := []uint16{1, 2, 3, 0, 65535, 256}

	// Corpus first: the repository's own example file, through the YAML reader.
	if t, err := topics.ReadPredefinedTopicsFile(filepath.Join(*repo, "topics/testdata/topics.yaml")); err == nil {
		names := []string{"device/000001/data", "device/000001/config", "device/any/data",
			"device/any/config", "device/any/bcast", "nope"}
		queries(t, []string{"client1", "client2", "*"}, names, []uint16{1, 2, 3, 4})
	} else {
		fmt.Fprintf(out, "X yaml-read-failed %v\n", err)
	}

	r := vh.NewRng(*seed)
	for k := 0; k < *count; k++ {
		t := topics.PredefinedTopics{}
		nc := r.Intn(4)
		for i := 0; i < nc; i++ {
			c := clientPool[r.Intn(4)]
			ne := r.Intn(5)
			if ne == 0 && r.Intn(3) == 0 {
				t[c] = map[uint16]string{} // present but empty
			}
			for j := 0; j < ne; j++ {
				t.Add(c, namePool[r.Intn(len(namePool))], idPool[r.Intn(len(idPool))])
			}
		}
		queries(t, clientPool, namePool, idPool)
	}

	// The mapping a tool builds (cmd/*/actions.go): the file's, with the parsed
	// --predefined-topic options merged over it.  Small pools, so that options repeat names and IDs
	// of earlier options and of the file, with and without a client ID.
	optNames := []string{"a", "b", "z", "a/b"}
	optClients := []string{"c1", "c2"}
	for k := 0; k < 4**count; k++ {
		file := topics.PredefinedTopics{}
		for i := r.Intn(3); i > 0; i-- {
			c := []string{"c1", "c2", "*"}[r.Intn(3)]
			for j := r.Intn(3); j > 0; j-- {
				file.Add(c, optNames[r.Intn(len(optNames))], uint16(1+r.Intn(3)))
			}
		}
		fileTok := vh.PredefString(file)
		var opts, toks []string
		for i := r.Intn(5); i > 0; i-- {
			name, id := optNames[r.Intn(len(optNames))], 1+r.Intn(3)
			o := fmt.Sprintf("%s;%d", name, id)
			if r.Intn(2) == 0 {
				o = fmt.Sprintf("%s;%s;%d", optClients[r.Intn(2)], name, id)
			}
			if r.Intn(40) == 0 {
				o = []string{"a", "a;b;c;1", "a;x", "c1;a;70000", ""}[r.Intn(5)]
			}
			opts, toks = append(opts, o), append(toks, vh.HexS(o))
		}
		res := "ERR"
		if len(opts) == 0 {
			res = fileTok
		} else if v, err := topics.ParsePredefinedTopicOptions(opts...); err == nil {
			file.Merge(v)
			res = vh.PredefString(file)
		}
		tok := "-"
		if len(toks) > 0 {
			tok = strings.Join(toks, "|")
		}
		fmt.Fprintf(out, "O %s %s %s\n", fileTok, tok, res)
	}
}
