// drv_codec runs /repo's MQTT-SN codec (packets, packets1) on generated inputs.
//
//	D <hex> OK <pkt-text> / <repacked hex>     ReadPacket succeeded; Pack of the result
//	D <hex> ERR                                ReadPacket returned an error
//	D <hex> PANIC <text>                       ReadPacket panicked
//	P <pkt-text> / <hex> / <decoded pkt-text|ERR|PANIC>   constructor-built packet, its Pack, ReadPacket of that
//	S <id> <hex> <id2>                         DecodeShortTopic(id), EncodeShortTopic of the result
package main

import (
	"bufio"
	"bytes"
	"flag"
	"fmt"
	"os"
	"strings"

	pkts "github.com/energomonitor/bisquitt/packets"
	p1 "github.com/energomonitor/bisquitt/packets1"
	"verifharness/pkttext"
	"verifharness/vh"
)

var out *bufio.Writer

func decode(b []byte) (res string, pkt pkts.Packet) {
	defer func() {
		if r := recover(); r != nil {
			res = "PANIC " + strings.ReplaceAll(fmt.Sprint(r), " ", "_")
			pkt = nil
		}
	}()
	p, err := p1.ReadPacket(bytes.NewReader(b))
	if err != nil {
		return "ERR", nil
	}
	return "OK " + pkttext.Text(p), p
}

func repack(p pkts.Packet) (res string) {
	defer func() {
		if r := recover(); r != nil {
			res = "PANIC"
		}
	}()
	b, err := p.Pack()
	if err != nil {
		return "ERR"
	}
	return vh.Hex(b)
}

func emitD(b []byte) {
	if len(b) == 0 {
		// a zero-length Read is io.EOF for bytes.Reader; a datagram conn returns n=0, err=nil.
		// Use a reader that returns (0, nil) once.
		fmt.Fprintf(out, "D x %s\n", decodeEmpty())
		return
	}
	res, p := decode(b)
	// A packet decoded earlier must not change when another datagram is decoded
	// (its byte-slice fields may alias the receive buffer): re-pack the packet
	// held from the previous successful decode again, now.
	if held != nil {
		if now := repack(held); now != heldPacked {
			fmt.Fprintf(out, "A %s ALIAS %s / %s\n", heldRaw, heldPacked, now)
		}
		held = nil
	}
	if p != nil {
		rp := repack(p)
		fmt.Fprintf(out, "D %s %s / %s\n", vh.Hex(b), res, rp)
		held, heldRaw, heldPacked = p, vh.Hex(b), rp
	} else {
		fmt.Fprintf(out, "D %s %s\n", vh.Hex(b), res)
	}
}

// the packet of the previous successful decode, its datagram and what it packed to then
var (
	held       pkts.Packet
	heldRaw    string
	heldPacked string
)

type emptyReader struct{}

func (emptyReader) Read(p []byte) (int, error) { return 0, nil }

func decodeEmpty() (res string) {
	defer func() {
		if r := recover(); r != nil {
			res = "PANIC " + strings.ReplaceAll(fmt.Sprint(r), " ", "_")
		}
	}()
	_, err := p1.ReadPacket(emptyReader{})
	if err != nil {
		return "ERR"
	}
	return "OK ?"
}

func emitP(text string) {
	p, err := pkttext.Build(text)
	if err != nil {
		fmt.Fprintf(out, "X build-failed %s %v\n", text, err)
		return
	}
	hexs := repack(p)
	if !strings.HasPrefix(hexs, "x") {
		fmt.Fprintf(out, "P %s / %s / -\n", text, hexs)
		return
	}
	res, _ := decode(vh.MustUnHex(hexs))
	res = strings.TrimPrefix(res, "OK ")
	fmt.Fprintf(out, "P %s / %s / %s\n", text, hexs, res)
}

var (
	u16pool  = []int{0, 1, 2, 255, 256, 257, 0x0c62, 0x7fff, 0x8000, 0xfffe, 0xffff}
	u8pool   = []int{0, 1, 2, 3, 4, 127, 128, 254, 255}
	lenpool  = []int{0, 1, 2, 3, 4, 5, 6, 7, 8, 9, 246, 247, 248, 249, 250, 251, 252, 253, 254, 255, 256, 257, 258, 259, 260, 261, 1000, 7160, 7167, 7168}
	lenpoolB = []int{8183, 8184, 8192, 20000, 65529, 65530, 65531, 65532, 65535, 65536, 70000}
)

func pick(r *vh.Rng, pool []int) int {
	if r.Intn(4) == 0 {
		return r.Intn(65536)
	}
	return pool[r.Intn(len(pool))]
}

func rbytes(r *vh.Rng, n int) string {
	b := make([]byte, n)
	mode := r.Intn(3)
	for i := range b {
		switch mode {
		case 0:
			b[i] = byte(r.U64())
		case 1:
			b[i] = byte('a' + r.Intn(26))
		default:
			b[i] = byte(i)
		}
	}
	return vh.Hex(b)
}

// genPacket returns the text of a random packet of the given kind.
func genPacket(r *vh.Rng, kind int, big bool) string {
	u16 := func() int { return pick(r, u16pool) & 0xffff }
	u8 := func() int { return pick(r, u8pool) & 0xff }
	ln := func() int {
		if big && r.Intn(3) == 0 {
			return lenpoolB[r.Intn(len(lenpoolB))]
		}
		if r.Intn(5) == 0 {
			return r.Intn(300)
		}
		return lenpool[r.Intn(len(lenpool))]
	}
	bl := func() int { return r.Intn(2) }
	switch kind {
	case 0:
		return fmt.Sprintf("Advertise gw=%d dur=%d", u8(), u16())
	case 1:
		return fmt.Sprintf("SearchGw radius=%d", u8())
	case 2:
		return fmt.Sprintf("GwInfo gw=%d addr=%s", u8(), rbytes(r, ln()))
	case 3:
		ml := []int{0, 1, 5, 250, 251, 252, 253, 254, 255, 256, 300}[r.Intn(11)]
		return fmt.Sprintf("Auth reason=%d method=%s data=%s", u8(), rbytes(r, ml), rbytes(r, ln()))
	case 4:
		proto := 1
		if r.Intn(6) == 0 {
			proto = u8()
		}
		return fmt.Sprintf("Connect will=%d clean=%d proto=%d dur=%d cid=%s", bl(), bl(), proto, u16(), rbytes(r, ln()))
	case 5:
		return fmt.Sprintf("Connack rc=%d", u8())
	case 6:
		return "WillTopicReq"
	case 7:
		return fmt.Sprintf("WillTopic qos=%d retain=%d topic=%s", u8(), bl(), rbytes(r, ln()))
	case 8:
		return "WillMsgReq"
	case 9:
		return fmt.Sprintf("WillMsg msg=%s", rbytes(r, ln()))
	case 10:
		return fmt.Sprintf("Register tid=%d mid=%d name=%s", u16(), u16(), rbytes(r, ln()))
	case 11:
		return fmt.Sprintf("Regack tid=%d mid=%d rc=%d", u16(), u16(), u8())
	case 12:
		return fmt.Sprintf("Publish dup=%d qos=%d retain=%d tit=%d tid=%d mid=%d data=%s", bl(), u8(), bl(), u8(), u16(), u16(), rbytes(r, ln()))
	case 13:
		return fmt.Sprintf("Puback tid=%d mid=%d rc=%d", u16(), u16(), u8())
	case 14:
		return fmt.Sprintf("Pubcomp mid=%d", u16())
	case 15:
		return fmt.Sprintf("Pubrec mid=%d", u16())
	case 16:
		return fmt.Sprintf("Pubrel mid=%d", u16())
	case 17:
		return fmt.Sprintf("Subscribe dup=%d qos=%d tit=%d mid=%d tid=%d name=%s", bl(), u8(), u8(), u16(), u16(), rbytes(r, ln()))
	case 18:
		return fmt.Sprintf("Suback qos=%d tid=%d mid=%d rc=%d", u8(), u16(), u16(), u8())
	case 19:
		return fmt.Sprintf("Unsubscribe tit=%d mid=%d tid=%d name=%s", u8(), u16(), u16(), rbytes(r, ln()))
	case 20:
		return fmt.Sprintf("Unsuback mid=%d", u16())
	case 21:
		return fmt.Sprintf("Pingreq cid=%s", rbytes(r, ln()))
	case 22:
		return "Pingresp"
	case 23:
		return fmt.Sprintf("Disconnect dur=%d", u16())
	case 24:
		return fmt.Sprintf("WillTopicUpd qos=%d retain=%d topic=%s", u8(), bl(), rbytes(r, ln()))
	case 25:
		return fmt.Sprintf("WillTopicResp rc=%d", u8())
	case 26:
		return fmt.Sprintf("WillMsgUpd msg=%s", rbytes(r, ln()))
	default:
		return fmt.Sprintf("WillMsgResp rc=%d", u8())
	}
}

func main() {
	seed := flag.Uint64("seed", 1, "PRNG seed")
	count := flag.Int("n", 2000, "random packets / datagrams per stream")
	len3 := flag.Int("len3", 0, "0: skip; k: all 3-byte datagrams whose third byte is a multiple of 256/k (256: exhaustive)")
	corpus := flag.String("corpus", "", "file of extra datagrams (one x<hex> per line), run first")
	flag.Parse()
	out = bufio.NewWriterSize(os.Stdout, 1<<20)
	defer out.Flush()
	r := vh.NewRng(*seed)

	if *corpus != "" {
		if f, err := os.Open(*corpus); err == nil {
			sc := bufio.NewScanner(f)
			sc.Buffer(make([]byte, 1<<20), 1<<26)
			for sc.Scan() {
				t := strings.Fields(sc.Text())
				if len(t) >= 1 && strings.HasPrefix(t[0], "x") {
					if b, err := vh.UnHex(t[0]); err == nil {
						emitD(b)
					}
				}
			}
			f.Close()
		}
	}

	// 1. exhaustive: lengths 0, 1, 2
	emitD([]byte{})
	for a := 0; a < 256; a++ {
		emitD([]byte{byte(a)})
	}
	for a := 0; a < 256; a++ {
		for b := 0; b < 256; b++ {
			emitD([]byte{byte(a), byte(b)})
		}
	}
	if *len3 > 0 {
		step := 256 / *len3
		for a := 0; a < 256; a++ {
			for b := 0; b < 256; b++ {
				for c := 0; c < 256; c += step {
					emitD([]byte{byte(a), byte(b), byte(c)})
				}
			}
		}
	}

	// 2. structural: every type byte x both header forms x body lengths x all 256 first body bytes (flags)
	for t := 0; t < 256; t++ {
		if t > 34 && t%37 != 0 && t != 0xfe && t != 0xff {
			continue
		}
		for bl := 0; bl <= 9; bl++ {
			body := r.Bytes(bl)
			// short form, correct length
			emitD(append([]byte{byte(bl + 2), byte(t)}, body...))
			// short form, lying length byte
			emitD(append([]byte{byte(r.Intn(256)), byte(t)}, body...))
			// long form announcing the true size
			emitD(append([]byte{1, byte((bl + 4) >> 8), byte(bl + 4), byte(t)}, body...))
			// long form announcing something else
			emitD(append([]byte{1, byte(r.Intn(3)), byte(r.Intn(256)), byte(t)}, body...))
			if bl >= 1 {
				for f := 0; f < 256; f += 1 + 6*(bl%2) {
					body[0] = byte(f)
					emitD(append([]byte{byte(bl + 2), byte(t)}, body...))
				}
			}
		}
	}
	// AUTH: every method-length byte against several body sizes
	for ml := 0; ml < 256; ml++ {
		for _, extra := range []int{0, 1, 2, 5, 200, 252, 253, 254, 255, 256, 257, 300} {
			body := append([]byte{0, byte(ml)}, r.Bytes(extra)...)
			emitD(append([]byte{byte(len(body) + 2), 3}, body...))
		}
	}
	// long-form headers announcing every length 0..300 over bodies of every type
	for l := 0; l <= 300; l += 1 + r.Intn(3) {
		t := []int{0, 3, 4, 7, 10, 12, 18, 20, 22, 24, 26}[r.Intn(11)]
		emitD(append([]byte{1, byte(l >> 8), byte(l), byte(t)}, r.Bytes(r.Intn(12))...))
	}

	// 3. packets from the constructors, and mutated encodings of them
	for k := 0; k < *count; k++ {
		kind := k % 28
		text := genPacket(r, kind, k%11 == 0)
		emitP(text)
		if p, err := pkttext.Build(text); err == nil {
			if b, err := p.Pack(); err == nil && len(b) > 0 && len(b) <= 8192 {
				emitD(b)
				m := append([]byte{}, b...)
				switch r.Intn(4) {
				case 0:
					m[r.Intn(len(m))] ^= byte(1 << r.Intn(8))
				case 1:
					m = m[:r.Intn(len(m))]
				case 2:
					m = append(m, r.Bytes(1+r.Intn(4))...)
				case 3:
					m[0] = byte(r.Intn(256))
				}
				if len(m) <= 8192 {
					emitD(m)
				}
				// the same bytes under a length octet that lies (short-form headers): decoders must go
				// by the datagram, and whoever trusts the octet shows
				// ... and in the long form (01 hi lo type body) with true and lying lengths
				if k < 28*20 && len(b) >= 2 && b[0] != 1 {
					for _, l := range []int{1, 2, 3, len(b) + 2, 300} {
						emitD(append([]byte{1, byte(l >> 8), byte(l)}, b[1:]...))
					}
				}
				if k < 28*40 && len(b) >= 2 && b[0] != 1 {
					for _, l := range []int{2, 3, 4, len(b) - 1, len(b) + 1} {
						if l >= 2 && l <= 255 && l != len(b) {
							v := append([]byte{}, b...)
							v[0] = byte(l)
							emitD(v)
							if l == 2 { // ... and the empty form of the type followed by a body
								emitD(append(append([]byte{2, b[1]}, 0x30), []byte("a/b")...))
							}
						}
					}
				}
			}
		}
	}

	// 4. random byte strings, a few of them large
	for k := 0; k < *count/4; k++ {
		n := r.Intn(40)
		if k%50 == 0 {
			n = []int{255, 256, 257, 4096, 8191, 8192}[r.Intn(6)]
		}
		emitD(r.Bytes(n))
	}

	// 5. short topics
	step := 1
	if *count < 20000 {
		step = 1 // always exhaustive: 65536 lines are cheap
	}
	for i := 0; i < 65536; i += step {
		s := pkts.DecodeShortTopic(uint16(i))
		fmt.Fprintf(out, "S %d %s %d %d\n", i, vh.HexS(s), pkts.EncodeShortTopic(s), b2i(pkts.IsShortTopic(s)))
	}
	for _, s := range []string{"", "a", "abc", "\x00\x00", "\xff\xff", "ab"} {
		fmt.Fprintf(out, "S - %s %d %d\n", vh.HexS(s), pkts.EncodeShortTopic(s), b2i(pkts.IsShortTopic(s)))
	}
	_ = p1.MaxPacketLen
}

func b2i(b bool) int {
	if b {
		return 1
	}
	return 0
}
