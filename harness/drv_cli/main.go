// drv_cli runs the REAL command line tools of /repo (bisquitt, bisquitt-pub,
// bisquitt-sub) as child processes against fake peers on loopback and prints
// what they put on the wire.
//
// Part A (C30, "a predefined-topic configuration means the same in every tool"):
//
//	CLI30 tool=<bisquitt-pub|bisquitt-sub> file=<predef|-> opts=<xhex|xhex...|-> client=<hex> q=name:<hex> -> exit=<code|running> tit=<n|-> tid=<n|->
//	CLI30 tool=bisquitt file=<predef|-> opts=<...|-> client=<hex> q=id:<n> -> exit=<code|running> topic=<hex|->
//
// Part B (C31, "credentials are never sent in plaintext unless explicitly allowed"):
//
//	CLI31 tool=<t> via=<flag|env> auth=<0|1|empty> pass=<0|1> dtls=<0|1> insecure=<0|1> -> started=<0|1> exit=<code|running> first=<hex|->
//	CLI31W tool=<bisquitt-pub|bisquitt-sub> <same key> -> plain_auth=<0|1> plain_user=<0|1> plain_pass=<0|1>
//
// CLI31W is an extra detail line for the two clients: whether, among the
// datagrams seen in the observation window, there was an unencrypted MQTT-SN
// AUTH packet / the user name / the password in clear.
//
// Notes on the values:
//   - the topic is always given to bisquitt-pub/-sub by NAME (--topic); tit=1 is
//     "predefined" (the tool found the name with topics.GetTopicID for its
//     client ID), tit=2 a short topic name (tid = its two bytes), tit=0 a
//     registered topic in PUBLISH (tid=999 is what the fake gateway's REGACK
//     hands out) and a topic name in SUBSCRIBE (tid=0);
//   - a name that is predefined under several IDs of one client makes
//     GetTopicID (map iteration) and hence tid vary from run to run;
//   - exit= is a number only if the process ended by itself before the
//     observation; a bisquitt-pub that published and then ended is "running";
//   - topic=- : the gateway answered the PUBLISH with DISCONNECT (its reaction to
//     an unknown topic ID) or stayed silent for a second.
//
// The last line is `CLISUMMARY runs=<child processes started> errors=<harness problems>`;
// the problems themselves are described on stderr. An observation that runs
// into a time limit is repeated with limits x2 and x4 before it counts as an
// error, so runs= depends on the load of the machine.
//
// Flags: -bindir -work -seed -n -par, and -a=false / -b=false to skip a part,
// -v to copy the child processes' output to stderr.
package main

import (
	"bufio"
	"bytes"
	"errors"
	"flag"
	"fmt"
	"net"
	"os"
	"os/exec"
	"os/signal"
	"path/filepath"
	"sort"
	"strconv"
	"strings"
	"sync"
	"sync/atomic"
	"syscall"
	"time"

	pkts "github.com/energomonitor/bisquitt/packets"
	pkts1 "github.com/energomonitor/bisquitt/packets1"
	"github.com/energomonitor/bisquitt/topics"
	"verifharness/mqttref"
	"verifharness/vh"
)

// ---------------------------------------------------------------- parameters

const (
	clientID = "cl1"

	// Topic ID the fake MQTT-SN gateway hands out in REGACK (bisquitt-pub
	// registers a topic name which is neither predefined nor short).
	regackTopicID = 999

	userName = "u1"
	password = "s3cr3tpw"

	procTimeout   = 2 * time.Second         // how long a client may take to produce its datagram
	startTimeout  = 3 * time.Second         // how long the gateway may take to bind its port
	refuseTimeout = 1500 * time.Millisecond // part B: no datagram / no bind within this time = not started
	quietTime     = 300 * time.Millisecond  // "nothing arrived"
)

var (
	clientPool = []string{"*", "cl1", "cl2"}
	namePool   = []string{"t/a", "t/b", "t/c", "xy"} // "xy" is a short topic name
	// Names asked of bisquitt-pub / bisquitt-sub: the pool plus one that is never predefined.
	queryNames = []string{"t/a", "t/b", "t/c", "xy", "t/z"}
	// Topic IDs asked of the gateway: 1..6 can be predefined, 7 never is.
	queryIDs  = []uint16{1, 2, 3, 4, 5, 6, 7}
	malformed = []string{"a;b;c;d", "x", "t/a;70000", "cl1;t/b;70000"}
)

var (
	binDir  string
	workDir string
	verbose bool

	nRuns   atomic.Int64
	nErrors atomic.Int64
)

func harnessError(format string, a ...any) {
	nErrors.Add(1)
	fmt.Fprintf(os.Stderr, "drv_cli: ERROR: "+format+"\n", a...)
}

// ---------------------------------------------------------------- child processes

// live is the set of process groups that have not been reaped yet.
var live = struct {
	sync.Mutex
	pids     map[int]bool
	shutdown bool
}{pids: map[int]bool{}}

func killAll() {
	live.Lock()
	live.shutdown = true
	for pid := range live.pids {
		_ = syscall.Kill(-pid, syscall.SIGKILL)
	}
	live.Unlock()
	// Reap them (the Wait goroutines do), so that no zombies stay behind either.
	for i := 0; i < 100; i++ {
		live.Lock()
		n := len(live.pids)
		live.Unlock()
		if n == 0 {
			return
		}
		time.Sleep(10 * time.Millisecond)
	}
}

type proc struct {
	name string
	cmd  *exec.Cmd
	out  bytes.Buffer
	done chan struct{} // closed when the process has been reaped
	code int           // valid after done
}

// startProc starts bin in its own process group with exactly the given
// environment (the tools read HOST, PORT, USERNAME, DEBUG, ... from it).
func startProc(tool string, args, env []string) (*proc, error) {
	p := &proc{name: tool, done: make(chan struct{})}
	p.cmd = exec.Command(filepath.Join(binDir, tool), args...)
	p.cmd.Env = append([]string{"PATH=/usr/bin:/bin", "HOME=" + workDir}, env...)
	p.cmd.Dir = workDir
	p.cmd.Stdout = &p.out
	p.cmd.Stderr = &p.out
	p.cmd.SysProcAttr = &syscall.SysProcAttr{Setpgid: true}
	live.Lock()
	if live.shutdown {
		live.Unlock()
		return nil, errors.New("shutting down")
	}
	err := p.cmd.Start()
	if err == nil {
		live.pids[p.cmd.Process.Pid] = true
	}
	live.Unlock()
	if err != nil {
		return nil, err
	}
	nRuns.Add(1)
	go func() {
		_ = p.cmd.Wait()
		p.code = p.cmd.ProcessState.ExitCode()
		live.Lock()
		delete(live.pids, p.cmd.Process.Pid)
		live.Unlock()
		close(p.done)
	}()
	return p, nil
}

func (p *proc) exited() bool {
	select {
	case <-p.done:
		return true
	default:
		return false
	}
}

func (p *proc) signal(sig syscall.Signal) {
	if !p.exited() {
		_ = syscall.Kill(-p.cmd.Process.Pid, sig)
	}
}

// stop terminates the process group: SIGTERM, then SIGKILL.
func (p *proc) stop() {
	p.signal(syscall.SIGTERM)
	select {
	case <-p.done:
	case <-time.After(400 * time.Millisecond):
		p.signal(syscall.SIGKILL)
		<-p.done
	}
	if verbose {
		fmt.Fprintf(os.Stderr, "--- %s %q env=%q code=%d\n%s", p.name, p.cmd.Args[1:], p.cmd.Env[2:], p.code, p.out.String())
	}
}

// exitField is the exit= token: the exit code if the process ended by itself
// before anything was observed, "running" otherwise.
func exitField(selfExit bool, code int) string {
	if selfExit {
		return strconv.Itoa(code)
	}
	return "running"
}

// ---------------------------------------------------------------- ports

var usedPorts = struct {
	sync.Mutex
	m map[int]bool
}{m: map[int]bool{}}

// freeUDPPort returns a loopback UDP port that was free a moment ago and that
// this program has not handed out before. The port is released again before a
// child process binds it, so it is taken from below the kernel's ephemeral
// range (32768-60999): the sockets this program binds itself to port 0 (fake
// gateways, query sockets) can then never land on it in the meantime and
// receive another job's traffic.
var nextPort = 20000 + (os.Getpid()%97)*101

func freeUDPPort() (int, error) {
	for try := 0; try < 2000; try++ {
		usedPorts.Lock()
		port := nextPort
		nextPort++
		if nextPort >= 32000 {
			nextPort = 20000
		}
		dup := usedPorts.m[port]
		usedPorts.m[port] = true
		usedPorts.Unlock()
		if dup {
			continue
		}
		c, err := net.ListenUDP("udp4", &net.UDPAddr{IP: net.IPv4(127, 0, 0, 1), Port: port})
		if err != nil {
			continue
		}
		c.Close()
		return port, nil
	}
	return 0, errors.New("no free UDP port")
}

// udpBound tells whether some socket is bound to the UDP/IPv4 port (any local address).
func udpBound(port int) bool {
	data, err := os.ReadFile("/proc/net/udp")
	if err != nil {
		// No procfs: try to take the port ourselves.
		c, err := net.ListenUDP("udp4", &net.UDPAddr{IP: net.IPv4(127, 0, 0, 1), Port: port})
		if err != nil {
			return true
		}
		c.Close()
		return false
	}
	want := fmt.Sprintf(":%04X", port)
	for _, line := range strings.Split(string(data), "\n")[1:] {
		f := strings.Fields(line)
		if len(f) > 1 && strings.HasSuffix(f[1], want) {
			return true
		}
	}
	return false
}

// waitBound waits until the port is bound (true) or the process ended or the time is over (false).
func waitBound(p *proc, port int, timeout time.Duration) bool {
	deadline := time.Now().Add(timeout)
	for {
		if udpBound(port) {
			return true
		}
		if p.exited() || time.Now().After(deadline) {
			return udpBound(port)
		}
		select {
		case <-p.done:
		case <-time.After(10 * time.Millisecond):
		}
	}
}

// ---------------------------------------------------------------- fake MQTT-SN gateway (for bisquitt-pub / bisquitt-sub)

type snObs struct {
	raw []byte
	pkt pkts.Packet // nil if raw is not a MQTT-SN 1.2 packet
}

type fakeGW struct {
	conn   *net.UDPConn
	port   int
	answer bool
	obs    chan snObs
}

func packSN(p pkts.Packet) []byte {
	b, err := p.Pack()
	if err != nil {
		panic(err)
	}
	return b
}

func parseSN(b []byte) pkts.Packet {
	p, err := pkts1.ReadPacket(bytes.NewReader(b))
	if err != nil {
		return nil
	}
	return p
}

// newFakeGW opens a UDP socket on loopback. With answer it behaves like an
// accepting gateway, without it only records what it receives.
func newFakeGW(answer bool) (*fakeGW, error) {
	c, err := net.ListenUDP("udp4", &net.UDPAddr{IP: net.IPv4(127, 0, 0, 1)})
	if err != nil {
		return nil, err
	}
	g := &fakeGW{conn: c, port: c.LocalAddr().(*net.UDPAddr).Port, answer: answer, obs: make(chan snObs, 64)}
	go g.loop()
	return g, nil
}

func (g *fakeGW) close() { g.conn.Close() }

func (g *fakeGW) loop() {
	buf := make([]byte, 65536)
	for {
		n, from, err := g.conn.ReadFromUDP(buf)
		if err != nil {
			return
		}
		raw := append([]byte{}, buf[:n]...)
		pkt := parseSN(raw)
		select {
		case g.obs <- snObs{raw, pkt}:
		default:
		}
		if !g.answer || pkt == nil {
			continue
		}
		var reply pkts.Packet
		switch q := pkt.(type) {
		case *pkts1.Connect:
			reply = pkts1.NewConnack(pkts1.RC_ACCEPTED)
		case *pkts1.Register:
			r := pkts1.NewRegack(regackTopicID, pkts1.RC_ACCEPTED)
			r.CopyMessageID(q)
			reply = r
		case *pkts1.Publish:
			if q.QOS == 1 {
				r := pkts1.NewPuback(q.TopicID, pkts1.RC_ACCEPTED)
				r.CopyMessageID(q)
				reply = r
			}
		case *pkts1.Subscribe:
			r := pkts1.NewSuback(q.TopicID, pkts1.RC_ACCEPTED, q.QOS)
			r.CopyMessageID(q)
			reply = r
		case *pkts1.Pingreq:
			reply = pkts1.NewPingresp()
		case *pkts1.Disconnect:
			reply = pkts1.NewDisconnect(0)
		}
		if reply != nil {
			_, _ = g.conn.WriteToUDP(packSN(reply), from)
		}
	}
}

// ---------------------------------------------------------------- fake MQTT broker (for bisquitt)

type fakeBroker struct {
	ln    net.Listener
	port  int
	onPub func(mqttref.Packet) // called for every PUBLISH received

	mu    sync.Mutex
	conns []net.Conn
}

func newFakeBroker(onPub func(mqttref.Packet)) (*fakeBroker, error) {
	ln, err := net.Listen("tcp4", "127.0.0.1:0")
	if err != nil {
		return nil, err
	}
	b := &fakeBroker{ln: ln, port: ln.Addr().(*net.TCPAddr).Port, onPub: onPub}
	go func() {
		for {
			c, err := ln.Accept()
			if err != nil {
				return
			}
			b.mu.Lock()
			b.conns = append(b.conns, c)
			b.mu.Unlock()
			go b.serve(c)
		}
	}()
	return b, nil
}

func (b *fakeBroker) close() {
	b.ln.Close()
	b.mu.Lock()
	for _, c := range b.conns {
		c.Close()
	}
	b.mu.Unlock()
}

func (b *fakeBroker) serve(c net.Conn) {
	defer c.Close()
	var ps mqttref.Parser
	buf := make([]byte, 4096)
	for {
		n, err := c.Read(buf)
		if err != nil {
			return
		}
		for _, r := range ps.Feed(buf[:n]) {
			if r.Garbage {
				return
			}
			var reply *mqttref.Packet
			switch p := r.Packet; p.Type {
			case mqttref.CONNECT:
				reply = &mqttref.Packet{Type: mqttref.CONNACK}
			case mqttref.PUBLISH:
				b.onPub(p)
				if p.QoS == 1 {
					reply = &mqttref.Packet{Type: mqttref.PUBACK, MID: p.MID}
				}
			case mqttref.SUBSCRIBE:
				reply = &mqttref.Packet{Type: mqttref.SUBACK, MID: p.MID, Codes: strings.Repeat("\x00", len(p.Filters))}
			case mqttref.PINGREQ:
				reply = &mqttref.Packet{Type: mqttref.PINGRESP}
			case mqttref.DISCONNECT:
				return
			}
			if reply != nil {
				if _, err := c.Write(mqttref.Encode(*reply)); err != nil {
					return
				}
			}
		}
	}
}

// ---------------------------------------------------------------- part A: configurations

type config struct {
	idx     int
	file    topics.PredefinedTopics // nil = no --predefined-topics-file
	opts    []string
	path    string // of the YAML file
	fileTok string
	optsTok string
}

func yamlQuote(s string) string {
	return `"` + strings.NewReplacer(`\`, `\\`, `"`, `\"`).Replace(s) + `"`
}

// yamlOf renders the map in the shape of /repo/topics/testdata/topics.yaml.
func yamlOf(t topics.PredefinedTopics) string {
	if len(t) == 0 {
		return "---\n{}\n"
	}
	clients := make([]string, 0, len(t))
	for c := range t {
		clients = append(clients, c)
	}
	sort.Strings(clients)
	var sb strings.Builder
	sb.WriteString("---\n")
	for _, c := range clients {
		if len(t[c]) == 0 {
			fmt.Fprintf(&sb, "%s: {}\n", yamlQuote(c))
			continue
		}
		fmt.Fprintf(&sb, "%s:\n", yamlQuote(c))
		ids := make([]int, 0, len(t[c]))
		for id := range t[c] {
			ids = append(ids, int(id))
		}
		sort.Ints(ids)
		for _, id := range ids {
			fmt.Fprintf(&sb, "  %d: %s\n", id, yamlQuote(t[c][uint16(id)]))
		}
	}
	return sb.String()
}

func genConfig(seed uint64, i int) *config {
	r := vh.NewRng(seed*1000003 + uint64(i)*7919 + 17)
	cfg := &config{idx: i}
	if r.Intn(6) != 0 {
		cfg.file = topics.PredefinedTopics{}
		perm := []int{0, 1, 2}
		for k := 2; k > 0; k-- {
			j := r.Intn(k + 1)
			perm[k], perm[j] = perm[j], perm[k]
		}
		for _, ci := range perm[:r.Intn(4)] {
			c := clientPool[ci]
			cfg.file[c] = map[uint16]string{}
			for k := r.Intn(4); k > 0; k-- {
				cfg.file[c][uint16(1+r.Intn(6))] = namePool[r.Intn(len(namePool))]
			}
		}
	}
	nOpts := r.Intn(4)
	for k := 0; k < nOpts; k++ {
		name := namePool[r.Intn(len(namePool))]
		id := 1 + r.Intn(6)
		if r.Bool() {
			cfg.opts = append(cfg.opts, fmt.Sprintf("%s;%d", name, id))
		} else {
			cfg.opts = append(cfg.opts, fmt.Sprintf("%s;%s;%d", clientPool[r.Intn(3)], name, id))
		}
	}
	if r.Intn(7) == 0 {
		bad := malformed[r.Intn(len(malformed))]
		if len(cfg.opts) == 3 {
			cfg.opts[r.Intn(3)] = bad
		} else {
			pos := r.Intn(len(cfg.opts) + 1)
			cfg.opts = append(cfg.opts[:pos], append([]string{bad}, cfg.opts[pos:]...)...)
		}
	}

	cfg.fileTok = "-"
	if cfg.file != nil {
		cfg.fileTok = vh.PredefString(cfg.file)
	}
	cfg.optsTok = "-"
	if len(cfg.opts) > 0 {
		hs := make([]string, len(cfg.opts))
		for k, o := range cfg.opts {
			hs[k] = vh.HexS(o)
		}
		cfg.optsTok = strings.Join(hs, "|")
	}
	return cfg
}

func (cfg *config) writeFile() error {
	if cfg.file == nil {
		return nil
	}
	cfg.path = filepath.Join(workDir, fmt.Sprintf("topics-%03d.yaml", cfg.idx))
	return os.WriteFile(cfg.path, []byte(yamlOf(cfg.file)), 0o644)
}

// topicArgs are the command line arguments carrying the configuration (the same for all three tools).
func (cfg *config) topicArgs() []string {
	var a []string
	if cfg.file != nil {
		a = append(a, "--predefined-topics-file", cfg.path)
	}
	for _, o := range cfg.opts {
		a = append(a, "--predefined-topic", o)
	}
	return a
}

func (cfg *config) prefix(tool, q string) string {
	return fmt.Sprintf("CLI30 tool=%s file=%s opts=%s client=%s q=%s ->", tool, cfg.fileTok, cfg.optsTok, vh.HexS(clientID), q)
}

// ---------------------------------------------------------------- part A: bisquitt-pub / bisquitt-sub

// runClientA runs bisquitt-pub or bisquitt-sub once for one topic name and
// reports the topic ID type and topic ID of its PUBLISH / SUBSCRIBE datagram.
func runClientA(tool string, cfg *config, name string, scale time.Duration) ([]string, error) {
	prefix := cfg.prefix(tool, "name:"+vh.HexS(name))
	fail := func(format string, a ...any) ([]string, error) {
		return []string{prefix + " exit=running tit=- tid=-"},
			fmt.Errorf("%s cfg %d name %q: %s", tool, cfg.idx, name, fmt.Sprintf(format, a...))
	}
	gw, err := newFakeGW(true)
	if err != nil {
		return fail("fake gateway: %v", err)
	}
	defer gw.close()

	// The topic is always given by NAME (--topic); the tools look it up in the
	// predefined topics of their client ID (topics.GetTopicID) and use the
	// predefined topic ID when they find it.
	args := []string{"--host", "127.0.0.1", "--port", strconv.Itoa(gw.port), "--client-id", clientID, "--qos", "0", "--topic", name}
	if tool == "bisquitt-pub" {
		args = append(args, "--message", "m")
	}
	args = append(args, cfg.topicArgs()...)
	p, err := startProc(tool, args, nil)
	if err != nil {
		return fail("start: %v", err)
	}
	defer p.stop()

	// observed returns the line if o is the datagram we are waiting for.
	observed := func(o snObs) (string, bool) {
		switch q := o.pkt.(type) {
		case *pkts1.Publish:
			if tool == "bisquitt-pub" {
				return fmt.Sprintf("%s exit=running tit=%d tid=%d", prefix, q.TopicIDType, q.TopicID), true
			}
		case *pkts1.Subscribe:
			if tool == "bisquitt-sub" {
				return fmt.Sprintf("%s exit=running tit=%d tid=%d", prefix, q.TopicIDType, q.TopicID), true
			}
		}
		return "", false
	}
	timeout := time.After(scale * procTimeout)
	for {
		select {
		case o := <-gw.obs:
			if line, ok := observed(o); ok {
				if tool == "bisquitt-pub" {
					// Let it finish its DISCONNECT handshake (stop() kills it otherwise).
					select {
					case <-p.done:
					case <-time.After(scale * procTimeout):
						return []string{line}, fmt.Errorf("%s cfg %d name %q: still running %v after its PUBLISH", tool, cfg.idx, name, scale*procTimeout)
					}
				}
				return []string{line}, nil
			}
		case <-p.done:
			// It ended by itself: give what it sent the time to pass through the fake gateway.
			time.Sleep(20 * time.Millisecond)
			for {
				select {
				case o := <-gw.obs:
					if line, ok := observed(o); ok {
						return []string{line}, nil
					}
					continue
				default:
				}
				break
			}
			return []string{fmt.Sprintf("%s exit=%d tit=- tid=-", prefix, p.code)}, nil
		case <-timeout:
			return fail("neither the datagram nor an exit within %v", scale*procTimeout)
		}
	}
}

// ---------------------------------------------------------------- part A: bisquitt (gateway)

// queryGateway opens a new MQTT-SN session (own UDP socket: an unknown topic ID
// ends the gateway's session) and publishes to the predefined topic ID. The
// answer is the topic of the PUBLISH the fake broker received (via pubCh), or
// "nothing": the gateway sent DISCONNECT (that is how it ends a session after
// an error) or stayed silent for a second.
func queryGateway(port int, id uint16, pubCh <-chan string, scale time.Duration) (topic string, ok bool, err error) {
	c, err := net.ListenUDP("udp4", &net.UDPAddr{IP: net.IPv4(127, 0, 0, 1)})
	if err != nil {
		return "", false, err
	}
	defer c.Close()
	gwAddr := &net.UDPAddr{IP: net.IPv4(127, 0, 0, 1), Port: port}
	in := make(chan pkts.Packet, 16)
	go func() {
		defer close(in)
		buf := make([]byte, 2048)
		for {
			n, _, err := c.ReadFromUDP(buf)
			if err != nil {
				return
			}
			if p := parseSN(buf[:n]); p != nil {
				in <- p
			}
		}
	}()

	// CONNECT, repeated a few times in case the gateway is slow.
	connect := packSN(pkts1.NewConnect(60, []byte(clientID), false, true))
	connected := false
	for try := 0; try < 4 && !connected; try++ {
		if _, err := c.WriteToUDP(connect, gwAddr); err != nil {
			return "", false, err
		}
		timeout := time.After(scale * 700 * time.Millisecond)
		for waiting := true; waiting && !connected; {
			select {
			case p := <-in:
				if ack, isAck := p.(*pkts1.Connack); isAck {
					if ack.ReturnCode != pkts1.RC_ACCEPTED {
						return "", false, fmt.Errorf("CONNACK %d", ack.ReturnCode)
					}
					connected = true
				}
			case <-timeout:
				waiting = false
			}
		}
	}
	if !connected {
		return "", false, errors.New("no CONNACK")
	}

	pub := pkts1.NewPublish(id, []byte(fmt.Sprintf("q%d", id)), false, 0, false, pkts1.TIT_PREDEFINED)
	if _, err := c.WriteToUDP(packSN(pub), gwAddr); err != nil {
		return "", false, err
	}
	silence := time.After(scale * time.Second)
	for {
		select {
		case t := <-pubCh:
			return t, true, nil
		case p := <-in:
			if _, bye := p.(*pkts1.Disconnect); bye {
				// The session is over. A PUBLISH forwarded before that is at the broker by now or very soon.
				select {
				case t := <-pubCh:
					return t, true, nil
				case <-time.After(scale * 50 * time.Millisecond):
					return "", false, nil
				}
			}
		case <-silence:
			return "", false, nil
		}
	}
}

func runGatewayA(cfg *config, scale time.Duration) ([]string, error) {
	lines := func(exit string, got map[uint16]string) []string {
		var out []string
		for _, id := range queryIDs {
			topic := "-"
			if t, ok := got[id]; ok {
				topic = vh.HexS(t)
			}
			out = append(out, fmt.Sprintf("%s exit=%s topic=%s", cfg.prefix("bisquitt", "id:"+strconv.Itoa(int(id))), exit, topic))
		}
		return out
	}
	fail := func(format string, a ...any) ([]string, error) {
		return lines("running", nil), fmt.Errorf("bisquitt cfg %d: %s", cfg.idx, fmt.Sprintf(format, a...))
	}

	// The fake broker tells the query goroutines (by the payload "q<id>") what arrived.
	pubCh := map[uint16]chan string{}
	for _, id := range queryIDs {
		pubCh[id] = make(chan string, 8)
	}
	var stray atomic.Value
	br, err := newFakeBroker(func(pk mqttref.Packet) {
		id, err := strconv.ParseUint(strings.TrimPrefix(pk.Payload, "q"), 10, 16)
		ch := pubCh[uint16(id)]
		if err != nil || !strings.HasPrefix(pk.Payload, "q") || ch == nil {
			stray.Store(mqttref.Spec(pk))
			return
		}
		select {
		case ch <- pk.Topic:
		default:
		}
	})
	if err != nil {
		return fail("fake broker: %v", err)
	}
	defer br.close()
	port, err := freeUDPPort()
	if err != nil {
		return fail("%v", err)
	}
	args := []string{"--mqtt-host", "127.0.0.1", "--mqtt-port", strconv.Itoa(br.port), "--host", "127.0.0.1", "--port", strconv.Itoa(port)}
	args = append(args, cfg.topicArgs()...)
	p, err := startProc("bisquitt", args, nil)
	if err != nil {
		return fail("start: %v", err)
	}
	defer p.stop()

	if !waitBound(p, port, scale*startTimeout) {
		if p.exited() {
			return lines(strconv.Itoa(p.code), nil), nil
		}
		return fail("port %d not bound within %v", port, scale*startTimeout)
	}

	var (
		wg       sync.WaitGroup
		mu       sync.Mutex
		got      = map[uint16]string{}
		firstErr error
	)
	for _, id := range queryIDs {
		wg.Add(1)
		go func() {
			defer wg.Done()
			topic, ok, err := queryGateway(port, id, pubCh[id], scale)
			mu.Lock()
			defer mu.Unlock()
			if err != nil && firstErr == nil {
				firstErr = fmt.Errorf("bisquitt cfg %d id %d: %v", cfg.idx, id, err)
			}
			if ok {
				got[id] = topic
			}
		}()
	}
	wg.Wait()
	if firstErr == nil && p.exited() {
		firstErr = fmt.Errorf("bisquitt cfg %d: the gateway ended during the queries with exit code %d", cfg.idx, p.code)
	}
	if s, ok := stray.Load().(string); ok && firstErr == nil {
		firstErr = fmt.Errorf("bisquitt cfg %d: unexpected PUBLISH at the broker: %s", cfg.idx, s)
	}
	return lines("running", got), firstErr
}

// ---------------------------------------------------------------- part B

type credCase struct {
	tool   string
	viaEnv bool
	auth   string // "0", "1", "empty"
	pass   bool
	dtls   bool
	insec  bool
}

func b2s(b bool) string {
	if b {
		return "1"
	}
	return "0"
}

func (c credCase) key() string {
	via := "flag"
	if c.viaEnv {
		via = "env"
	}
	return fmt.Sprintf("tool=%s via=%s auth=%s pass=%s dtls=%s insecure=%s", c.tool, via, c.auth, b2s(c.pass), b2s(c.dtls), b2s(c.insec))
}

// settings returns the four studied settings as command line arguments or as environment.
//
//	bisquitt:      --auth / AUTH            --mqtt-password / MQTT_PASSWORD   --dtls --self-signed / DTLS_ENABLED SELF_SIGNED   --insecure / INSECURE
//	pub and sub:   --user / USERNAME        --password / PASSWORD             (same)                                               (same)
//
// auth=empty is `--user ""` / `USERNAME=` for the clients and `--auth=` / `AUTH=` for the gateway.
func (c credCase) settings() (args, env []string) {
	add := func(flagArgs []string, envVar string) {
		if c.viaEnv {
			env = append(env, envVar)
		} else {
			args = append(args, flagArgs...)
		}
	}
	gw := c.tool == "bisquitt"
	switch {
	case c.auth == "1" && gw:
		add([]string{"--auth"}, "AUTH=true")
	case c.auth == "1":
		add([]string{"--user", userName}, "USERNAME="+userName)
	case c.auth == "empty" && gw:
		add([]string{"--auth="}, "AUTH=")
	case c.auth == "empty":
		add([]string{"--user", ""}, "USERNAME=")
	}
	if c.pass {
		if gw {
			add([]string{"--mqtt-password", password}, "MQTT_PASSWORD="+password)
		} else {
			add([]string{"--password", password}, "PASSWORD="+password)
		}
	}
	if c.dtls {
		add([]string{"--dtls"}, "DTLS_ENABLED=true")
		add([]string{"--self-signed"}, "SELF_SIGNED=true")
	}
	if c.insec {
		add([]string{"--insecure"}, "INSECURE=true")
	}
	return
}

func hexPrefix(b []byte) string {
	if len(b) > 8 {
		b = b[:8]
	}
	return vh.Hex(b)
}

func runCred(c credCase, scale time.Duration) ([]string, error) {
	line := func(started bool, exit, first string) string {
		return fmt.Sprintf("CLI31 %s -> started=%s exit=%s first=%s", c.key(), b2s(started), exit, first)
	}
	fail := func(format string, a ...any) ([]string, error) {
		return []string{line(false, "running", "-")}, fmt.Errorf("%s: %s", c.key(), fmt.Sprintf(format, a...))
	}
	args, env := c.settings()
	wait := scale * refuseTimeout

	if c.tool == "bisquitt" {
		port, err := freeUDPPort()
		if err != nil {
			return fail("%v", err)
		}
		// The broker address is not used before a client connects.
		args = append([]string{"--mqtt-host", "127.0.0.1", "--mqtt-port", "1", "--host", "127.0.0.1", "--port", strconv.Itoa(port)}, args...)
		p, err := startProc(c.tool, args, env)
		if err != nil {
			return fail("start: %v", err)
		}
		defer p.stop()
		bound := waitBound(p, port, wait)
		if !bound && p.exited() {
			return []string{line(false, strconv.Itoa(p.code), "-")}, nil
		}
		if bound && p.exited() {
			// Somebody else owns the port, or the gateway died right after binding.
			return fail("port %d bound but the gateway ended with code %d", port, p.code)
		}
		if !bound {
			return fail("neither listening nor ended within %v", wait)
		}
		return []string{line(true, "running", "-")}, nil
	}

	gw, err := newFakeGW(false)
	if err != nil {
		return fail("fake gateway: %v", err)
	}
	defer gw.close()
	base := []string{"--host", "127.0.0.1", "--port", strconv.Itoa(gw.port), "--client-id", clientID, "--topic", "t/a"}
	if c.tool == "bisquitt-pub" {
		base = append(base, "--message", "m")
	}
	p, err := startProc(c.tool, append(base, args...), env)
	if err != nil {
		return fail("start: %v", err)
	}
	defer p.stop()

	var grams [][]byte
	detail := func() string {
		auth, user, pass := false, false, false
		for _, g := range grams {
			if _, ok := parseSN(g).(*pkts1.Auth); ok {
				auth = true
			}
			// As in the PLAIN data "\0user\0password" (two bytes alone could show up in a DTLS record by chance).
			user = user || bytes.Contains(g, []byte("\x00"+userName+"\x00"))
			pass = pass || bytes.Contains(g, []byte(password))
		}
		return fmt.Sprintf("CLI31W %s -> plain_auth=%s plain_user=%s plain_pass=%s", c.key(), b2s(auth), b2s(user), b2s(pass))
	}
	timeout := time.After(wait)
	done := p.done
	selfExit := false
	for {
		select {
		case o := <-gw.obs:
			grams = append(grams, o.raw)
			// CONNECT and AUTH are sent back to back: collect what follows shortly.
			more := time.After(scale * quietTime)
			for collecting := true; collecting; {
				select {
				case o := <-gw.obs:
					grams = append(grams, o.raw)
				case <-more:
					collecting = false
				}
			}
			return []string{line(true, exitField(selfExit, p.code), hexPrefix(grams[0])), detail()}, nil
		case <-done:
			// Give a datagram sent just before the exit the time to show up.
			done, selfExit = nil, true
			timeout = time.After(50 * time.Millisecond)
		case <-timeout:
			ls := []string{line(false, exitField(selfExit, p.code), "-"), detail()}
			if !selfExit {
				return ls, fmt.Errorf("%s: neither a datagram nor an exit within %v", c.key(), wait)
			}
			return ls, nil
		}
	}
}

// ---------------------------------------------------------------- main

// A job is one observation (one or a few child processes). scale stretches its
// time limits: a job that fails for a reason that may be load (a time limit,
// no answer) is tried again with scale 2 and 4 before it counts as an error.
type job func(scale time.Duration) ([]string, error)

// ---------------------------------------------------------------- part C: two peers of one gateway (C15)

// snPeer is a minimal MQTT-SN peer on its own UDP socket (its own address).
type snPeer struct {
	c  *net.UDPConn
	gw *net.UDPAddr
	in chan pkts.Packet
}

func newPeer(port int) (*snPeer, error) {
	c, err := net.ListenUDP("udp4", &net.UDPAddr{IP: net.IPv4(127, 0, 0, 1)})
	if err != nil {
		return nil, err
	}
	p := &snPeer{c: c, gw: &net.UDPAddr{IP: net.IPv4(127, 0, 0, 1), Port: port}, in: make(chan pkts.Packet, 32)}
	go func() {
		buf := make([]byte, 2048)
		for {
			n, _, err := c.ReadFromUDP(buf)
			if err != nil {
				return
			}
			if q := parseSN(buf[:n]); q != nil {
				p.in <- q
			}
		}
	}()
	return p, nil
}

// ask sends pkt (repeating it a few times) until a packet accepted by want arrives.
func (p *snPeer) ask(pkt pkts.Packet, scale time.Duration, want func(pkts.Packet) bool) bool {
	b := packSN(pkt)
	for try := 0; try < 3; try++ {
		if _, err := p.c.WriteToUDP(b, p.gw); err != nil {
			return false
		}
		timeout := time.After(scale * 700 * time.Millisecond)
		for waiting := true; waiting; {
			select {
			case q := <-p.in:
				if want(q) {
					return true
				}
			case <-timeout:
				waiting = false
			}
		}
	}
	return false
}

// runIsolation: the real gateway binary (accept loop, one session per peer address), two peers. Peer A
// connects first and B second; A's session ends; B's session must be unaffected (same registration,
// still served) and A's address must be able to connect again.  One line:
//
//	CLI15 two-peers -> ok | fail=<step>
func runIsolation(scale time.Duration) ([]string, error) {
	res := func(r string) []string { return []string{"CLI15 two-peers -> " + r} }
	br, err := newFakeBroker(func(mqttref.Packet) {})
	if err != nil {
		return res("skipped"), fmt.Errorf("fake broker: %v", err)
	}
	defer br.close()
	port, err := freeUDPPort()
	if err != nil {
		return res("skipped"), err
	}
	p, err := startProc("bisquitt", []string{"--mqtt-host", "127.0.0.1", "--mqtt-port", strconv.Itoa(br.port),
		"--host", "127.0.0.1", "--port", strconv.Itoa(port)}, nil)
	if err != nil {
		return res("skipped"), err
	}
	defer p.stop()
	if !waitBound(p, port, scale*startTimeout) {
		return res("skipped"), fmt.Errorf("isolation: port %d not bound", port)
	}
	a, err := newPeer(port)
	if err != nil {
		return res("skipped"), err
	}
	defer a.c.Close()
	b, err := newPeer(port)
	if err != nil {
		return res("skipped"), err
	}
	defer b.c.Close()
	connack := func(q pkts.Packet) bool { k, ok := q.(*pkts1.Connack); return ok && k.ReturnCode == pkts1.RC_ACCEPTED }
	if !a.ask(pkts1.NewConnect(60, []byte("peerA"), false, true), scale, connack) {
		return res("fail=connect-A"), nil
	}
	if !b.ask(pkts1.NewConnect(60, []byte("peerB"), false, true), scale, connack) {
		return res("fail=connect-B"), nil
	}
	var tid uint16
	reg := pkts1.NewRegister(0, "iso/b")
	reg.SetMessageID(11)
	if !b.ask(reg, scale, func(q pkts.Packet) bool {
		k, ok := q.(*pkts1.Regack)
		if ok && k.ReturnCode == pkts1.RC_ACCEPTED {
			tid = k.TopicID
		}
		return ok
	}) || tid == 0 {
		return res("fail=register-B"), nil
	}
	// A's session ends
	if !a.ask(pkts1.NewDisconnect(0), scale, func(q pkts.Packet) bool { _, ok := q.(*pkts1.Disconnect); return ok }) {
		return res("fail=disconnect-A"), nil
	}
	time.Sleep(scale * 300 * time.Millisecond)
	// B is still served by ITS session: the same registration, pings answered
	reg2 := pkts1.NewRegister(0, "iso/b")
	reg2.SetMessageID(12)
	same := false
	if !b.ask(reg2, scale, func(q pkts.Packet) bool {
		k, ok := q.(*pkts1.Regack)
		if ok {
			same = k.ReturnCode == pkts1.RC_ACCEPTED && k.TopicID == tid
		}
		return ok
	}) || !same {
		return res("fail=B-lost-its-session-after-A-left"), nil
	}
	if !b.ask(pkts1.NewPingreq(nil), scale, func(q pkts.Packet) bool { _, ok := q.(*pkts1.Pingresp); return ok }) {
		return res("fail=B-ping-after-A-left"), nil
	}
	// A's address can connect again
	if !a.ask(pkts1.NewConnect(60, []byte("peerA"), false, true), scale, connack) {
		return res("fail=reconnect-A"), nil
	}
	return res("ok"), nil
}

func main() {
	var seed uint64
	var n, par int
	flag.StringVar(&binDir, "bindir", "", "directory with the binaries bisquitt, bisquitt-pub, bisquitt-sub")
	flag.Uint64Var(&seed, "seed", 1, "seed of the generated configurations")
	flag.IntVar(&n, "n", 6, "number of predefined-topic configurations per tool (part A)")
	flag.StringVar(&workDir, "work", "", "scratch directory for the YAML files")
	flag.IntVar(&par, "par", 8, "number of runs in parallel")
	partA := flag.Bool("a", true, "run part A (CLI30)")
	partB := flag.Bool("b", true, "run part B (CLI31)")
	flag.BoolVar(&verbose, "v", false, "print the output of the child processes to stderr")
	flag.Parse()
	if binDir == "" || workDir == "" || par < 1 {
		fmt.Fprintln(os.Stderr, "usage: drv_cli -bindir <dir> -work <dir> [-seed N] [-n N] [-par N]")
		os.Exit(2)
	}
	var err error
	if binDir, err = filepath.Abs(binDir); err == nil {
		workDir, err = filepath.Abs(workDir)
	}
	if err == nil {
		err = os.MkdirAll(workDir, 0o755)
	}
	tools := []string{"bisquitt", "bisquitt-pub", "bisquitt-sub"}
	for _, t := range tools {
		if err == nil {
			_, err = os.Stat(filepath.Join(binDir, t))
		}
	}
	if err != nil {
		fmt.Fprintln(os.Stderr, "drv_cli:", err)
		os.Exit(2)
	}

	sigCh := make(chan os.Signal, 1)
	signal.Notify(sigCh, syscall.SIGINT, syscall.SIGTERM, syscall.SIGHUP)
	go func() {
		<-sigCh
		killAll()
		os.Exit(130)
	}()
	defer killAll()

	var jobs []job
	if *partA {
		for i := 0; i < n; i++ {
			cfg := genConfig(seed, i)
			if err := cfg.writeFile(); err != nil {
				fmt.Fprintln(os.Stderr, "drv_cli:", err)
				os.Exit(2)
			}
			jobs = append(jobs, func(s time.Duration) ([]string, error) { return runGatewayA(cfg, s) })
			for _, tool := range tools[1:] {
				for _, name := range queryNames {
					jobs = append(jobs, func(s time.Duration) ([]string, error) { return runClientA(tool, cfg, name, s) })
				}
			}
		}
	}
	if *partB {
		for _, tool := range tools {
			for _, viaEnv := range []bool{false, true} {
				for m := 0; m < 16; m++ {
					c := credCase{tool: tool, viaEnv: viaEnv, auth: b2s(m&8 != 0), pass: m&4 != 0, dtls: m&2 != 0, insec: m&1 != 0}
					jobs = append(jobs, func(s time.Duration) ([]string, error) { return runCred(c, s) })
				}
				// The user (auth setting) given but empty, with a password, over plain UDP.
				c := credCase{tool: tool, viaEnv: viaEnv, auth: "empty", pass: true}
				jobs = append(jobs, func(s time.Duration) ([]string, error) { return runCred(c, s) })
			}
		}
	}

	if *partA { // part C rides along with part A (one more process of the gateway binary)
		jobs = append(jobs, runIsolation)
	}

	results := make([][]string, len(jobs))
	var next atomic.Int64
	var wg sync.WaitGroup
	for w := 0; w < par; w++ {
		wg.Add(1)
		go func() {
			defer wg.Done()
			for {
				i := int(next.Add(1)) - 1
				if i >= len(jobs) {
					return
				}
				for scale := time.Duration(1); ; scale *= 2 {
					ls, err := jobs[i](scale)
					results[i] = ls
					if err == nil {
						break
					}
					if scale == 4 {
						harnessError("%v", err)
						break
					}
					fmt.Fprintf(os.Stderr, "drv_cli: retry: %v\n", err)
				}
			}
		}()
	}
	wg.Wait()

	out := bufio.NewWriter(os.Stdout)
	for _, ls := range results {
		for _, l := range ls {
			fmt.Fprintln(out, l)
		}
	}
	fmt.Fprintf(out, "CLISUMMARY runs=%d errors=%d\n", nRuns.Load(), nErrors.Load())
	out.Flush()
}
