package drv_e2e

import (
	"bufio"
	"bytes"
	"os"
	"path/filepath"
	"regexp"
	"strings"
	"testing"
)

func runAll(t *testing.T, hs []history) string {
	var b bytes.Buffer
	tr := &trace{w: bufio.NewWriter(&b)}
	for _, h := range hs {
		tr.linef("H %d", h.index)
		if p := bubble(t, func() { runHistory(h, tr) }); p != nil {
			t.Fatalf("history %d: leftover %v\n%s", h.index, p, b.String())
		}
	}
	return b.String()
}

const selfHistory = `# CONNECT, REGISTER a/b, PUBLISH QoS 1, SUBSCRIBE t/x QoS 1, broker PUBLISH on t/x, DISCONNECT; lossless link
H 7 GW auth=0 user=- pass=- rdelay=1000 rcount=2 predef=~ CL cid=x636c31 user=- pass=x keepalive=60 ctimeout=5000 rdelay=1000 rcount=2 clean=1 will=- wmsg=x wqos=0 wretain=0 predef=~ LINK c2g=- g2c=-
E CALL 1 CONNECT
E CALL 2 REGISTER x612f62
E CALL 3 PUBLISH x612f62 1 0 x6869
E CALL s1 SUBSCRIBE x742f78 1
E BPUB PUBLISH dup=0 qos=1 retain=0 topic=x742f78 mid=7 payload=x7031
E CALL 4 DISCONNECT
E ADV 1500
END
`

// One small history over a lossless link: every call returns ok, the handler
// of the subscription runs once, the broker has seen what the client did.
func TestSelf(t *testing.T) {
	hs, err := parseHistories(strings.NewReader(selfHistory), "selfHistory")
	if err != nil || len(hs) != 1 {
		t.Fatalf("parse: %v (%d histories)", err, len(hs))
	}
	got := runAll(t, hs)
	count := func(re string) int { return len(regexp.MustCompile("(?m)^"+re).FindAllString(got, -1)) }
	for _, c := range []struct {
		re   string
		want int
	}{
		{`H 7$`, 1},
		{`E \d+ `, 7},
		{`O \d+ RET 1 ok$`, 1},
		{`O \d+ RET 2 ok$`, 1},
		{`O \d+ RET 3 ok$`, 1},
		{`O \d+ RET s1 ok$`, 1},
		{`O \d+ RET 4 ok$`, 1},
		{`O \d+ RET `, 5},
		{`O \d+ CB `, 1},
		{`O 0 CB s1 x742f78 x7031 qos=1 retain=0 dup=0 mid=7$`, 1},
		{`O \d+ BR CONNECT clean=1 keepalive=60 cid=x636c31 `, 1},
		{`O \d+ BR PUBLISH dup=0 qos=1 retain=0 topic=x612f62 mid=\d+ payload=x6869$`, 1},
		{`O \d+ BR SUBSCRIBE mid=\d+ dup=0 filters=x742f78:1$`, 1},
		{`O \d+ BR PUBACK mid=7$`, 1},
		{`O \d+ BR DISCONNECT$`, 1},
		{`O \d+ BR MQ`, 0}, // MQBAD, MQGARBAGE
		{`O \d+ BS CONNACK sp=0 rc=0$`, 1},
		{`O \d+ BS SUBACK mid=\d+ codes=x01$`, 1},
		{`O \d+ BS PUBLISH `, 1}, // the BPUB; a/b is not subscribed: nothing is routed
		{`O \d+ (C2G|G2C) [x2] `, 0},
		{`O \d+ C2G d `, 6}, // CONNECT, REGISTER, PUBLISH, SUBSCRIBE, PUBACK, DISCONNECT
		{`O \d+ G2C d `, 6}, // CONNACK, REGACK, PUBACK, SUBACK, PUBLISH, DISCONNECT
		{`O \d+ BRCLOSE$`, 1},
		{`O \d+ GWEND$`, 1},
		{`O \d+ EXIT$`, 1},
		{`X `, 0},
		{`END$`, 1},
	} {
		if n := count(c.re); n != c.want {
			t.Errorf("%d lines match %q, want %d", n, c.re, c.want)
		}
	}
	if t.Failed() {
		t.Logf("trace:\n%s", got)
	}
}

// The sample histories (lossless and lossy links) give the same trace on every run.
func TestSampleDeterministic(t *testing.T) {
	hs, err := readHistories("testdata/sample.hist")
	if err != nil {
		t.Fatal(err)
	}
	first := runAll(t, hs)
	for i := 0; i < 20; i++ {
		if again := runAll(t, hs); again != first {
			t.Fatalf("run %d differs:\n%s\n---\n%s", i, first, again)
		}
	}
	if want, err := os.ReadFile(filepath.Join("testdata", "sample.trace")); err == nil && string(want) != first {
		t.Errorf("trace differs from testdata/sample.trace:\n%s", first)
	}
	if strings.Contains(first, "X ") || strings.Count(first, "\nEND\n") != len(hs) {
		t.Errorf("unexpected trace:\n%s", first)
	}
	// History 1: the PUBACK of the QoS 1 PUBLISH is lost, the client repeats the PUBLISH with DUP.
	// History 2: a QoS 2 PUBLISH comes back over a link that duplicates and loses: one CB.
	for _, want := range []string{
		"O 1000 G2C x x070d0001000300\n",
		"O 2000 C2G d x090ca0000100037131\n",
		"O 2000 BR PUBLISH dup=1 qos=1 retain=0 topic=x612f62 mid=3 payload=x7131\n",
		"O 0 G2C 2 x090c40000103e87132\n",
	} {
		if !strings.Contains(first, want) {
			t.Errorf("trace lacks %q", want)
		}
	}
	if blocks := strings.Split(first, "\nH "); len(blocks) != 3 || strings.Count(blocks[2], " CB ") != 1 {
		t.Errorf("history 2 must have exactly one CB line:\n%s", first)
	}
}

// Goroutines that are left over are reported as "X LEAK", the bubble is torn
// down (synctest's panic is caught by bubble) and the next history runs.
func TestLeak(t *testing.T) {
	hs, err := parseHistories(strings.NewReader(selfHistory), "selfHistory")
	if err != nil {
		t.Fatal(err)
	}
	var b bytes.Buffer
	tr := &trace{w: bufio.NewWriter(&b)}
	testHook = func() {
		for i := 0; i < 2; i++ {
			go func() { <-make(chan int) }()
		}
	}
	p := bubble(t, func() { runHistory(hs[0], tr) })
	testHook = nil
	if p == nil || !strings.HasSuffix(b.String(), "O 1000 EXIT\nX LEAK 2\nEND\n") {
		t.Fatalf("leftover %v, trace:\n%s", p, b.String())
	}
	if got := runAll(t, hs); strings.Contains(got, "X ") {
		t.Errorf("the next history:\n%s", got)
	}
}

func TestTopicMatches(t *testing.T) {
	for _, c := range []struct {
		filter, topic string
		want          bool
	}{
		{"a/b", "a/b", true}, {"a/b", "a/c", false}, {"a/b", "a", false}, {"a", "a/b", false},
		{"a/+", "a/b", true}, {"a/+", "a", false}, {"a/+", "a/", true}, {"a/+", "a/b/c", false},
		{"+/+", "/x", true}, {"+", "/x", false}, {"+/b/+", "a/b/c", true},
		{"#", "a/b/c", true}, {"a/#", "a", true}, {"a/#", "a/b/c", true}, {"a/#", "b", false}, {"a/#", "ab", false},
		{"#", "$SYS/x", false}, {"+/x", "$SYS/x", false}, {"$SYS/#", "$SYS/x", true},
		{"a/#/b", "a/x/b", false}, // '#' not last: not a valid filter, matches nothing
	} {
		if got := topicMatches(c.filter, c.topic); got != c.want {
			t.Errorf("topicMatches(%q, %q) = %v, want %v", c.filter, c.topic, got, c.want)
		}
	}
}

func TestParseErrors(t *testing.T) {
	good := strings.SplitN(selfHistory, "\n", 3)[1]
	if _, err := parseH(good); err != nil {
		t.Fatalf("parseH(%q): %v", good, err)
	}
	for _, bad := range []string{
		strings.Replace(good, " CL ", " XL ", 1),
		strings.Replace(good, "c2g=-", "c2g=dxy", 1),
		strings.Replace(good, "c2g=-", "c2g=", 1),
		strings.Replace(good, " rcount=2 predef=~ CL", " predef=~ CL", 1),
		strings.Replace(good, "keepalive=60", "keepalive=70000", 1),
		strings.Replace(good, " g2c=-", "", 1),
	} {
		if _, err := parseH(bad); err == nil {
			t.Errorf("parseH(%q): no error", bad)
		}
	}
	for _, bad := range []string{"BPUB PUBACK mid=1", "BPUB PUBLISH dup=0", "CALL 1", "CALL 1 PUBLISH x61", "ADV -1", "SN x00"} {
		if _, err := parseE(bad); err == nil {
			t.Errorf("parseE(%q): no error", bad)
		}
	}
	h, err := parseH(strings.Replace(good, "c2g=- g2c=-", "c2g=dx2 g2c=2", 1))
	if err != nil || h.c2g != "dx2" || h.g2c != "2" || h.index != 7 || h.clCfg.ClientID != "cl1" || h.gwCfg.RetryCount != 2 {
		t.Errorf("parseH: %v %+v", err, h)
	}
}
