// Package drv_e2e is the end-to-end driver (properties C16, C26). It is built
// as a test binary because testing/synctest needs a *testing.T:
//
//	go1.26 test -c -tags verif -o drv_e2e.test ./drv_e2e
//	./drv_e2e.test -hist histories.txt -out trace.txt [-start N]
//
// For every history of the input file (format: ../E2E_SPEC.md) the real
// client.Client and one real gateway session (gateway.VerifSession) run in one
// synctest bubble:
//
//	client.Client -- cl end --[ link: c2g / g2c fault lists ]-- gw end -- gateway session -- memconn.Stream -- broker
//
// The link (type link) is two memconn.Datagram endpoints; what is written on
// one end is logged (C2G / G2C with the decision d, x or 2) and then, according
// to the decision, injected into the other end, at once.
//
// The broker (type broker) sits in the OnWrite callback of the gateway's broker
// connection: it parses what the gateway writes with mqttref.Parser (BR lines)
// and answers in the same call (BS lines) as a conforming MQTT 3.1.1 broker
// with a subscription table and routing.
//
// API calls of the history are started in goroutines of their own, BPUB events
// make the broker send a PUBLISH, ADV lets virtual time pass; after every event
// the driver waits for quiescence (synctest.Wait).
//
// The lines of the trace are written in program order (as in drv_gw, not
// collected and sorted as in drv_client): within one instant the order of the
// lines is the causal order C2G, BR, BS, G2C, RET ... What two timers that are
// due at the same virtual instant cause (Go 1.26 fires them in a random order)
// may therefore be interleaved differently from run to run; the multiset of
// lines per instant is what is stable.
//
// A panic in a goroutine started by the client or by the gateway kills the
// process; the trace then ends with the "H <index>" line and the events of the
// crashed history that were completed plus the "E" line of the event that
// crashed (the file is flushed before and after every event). The caller adds
// the "X PANIC" line and restarts with -start <index+1>, which appends to -out.
package drv_e2e
