package drv_e2e

import (
	"bufio"
	"context"
	"errors"
	"flag"
	"fmt"
	"io"
	"net"
	"os"
	"regexp"
	"runtime"
	"runtime/debug"
	"strconv"
	"strings"
	"sync"
	"sync/atomic"
	"testing"
	"testing/synctest"
	"time"

	"github.com/energomonitor/bisquitt/client"
	"github.com/energomonitor/bisquitt/gateway"
	pkts1 "github.com/energomonitor/bisquitt/packets1"
	"github.com/energomonitor/bisquitt/topics"
	"github.com/energomonitor/bisquitt/transactions"
	"github.com/energomonitor/bisquitt/util"

	"verifharness/memconn"
	"verifharness/mqttref"
	"verifharness/vh"
)

var (
	histFlag  = flag.String("hist", "", "end-to-end history file (input)")
	outFlag   = flag.String("out", "", "end-to-end trace file (output; appended to when -start > 0; empty = stdout)")
	startFlag = flag.Int("start", 0, "skip histories with index < start")
)

// ---------------------------------------------------------------- input

// callFunc performs one API call; h is the handler for the subscribing calls.
type callFunc func(c *client.Client, h client.MessageHandlerFunc) error

type event struct {
	text string         // as in the history, without the leading "E "
	kind string         // CALL, BPUB, ADV
	id   string         // CALL
	call callFunc       // CALL
	pub  mqttref.Packet // BPUB
	pubs []mqttref.Packet // BBURST
	ms   int            // ADV
	sync bool           // CALLS: a CALL over the synchronous link (see link.syncOn)
}

type history struct {
	index    int
	gwCfg    gateway.VerifSessionConfig
	gwPredef topics.PredefinedTopics
	clCfg    client.ClientConfig
	c2g, g2c string // fault lists over d, x, 2
	events   []event
}

func number(s string, max int) (int, error) {
	n, err := strconv.Atoi(s)
	if err != nil || n < 0 || n > max {
		return 0, fmt.Errorf("bad number %q (0..%d)", s, max)
	}
	return n, nil
}

// cutKeys strips the expected "key=" prefixes from the fields.
func cutKeys(f []string, keys []string) ([]string, error) {
	if len(f) != len(keys) {
		return nil, fmt.Errorf("expected %d fields for %s...", len(keys), keys[0])
	}
	out := make([]string, len(f))
	for i := range f {
		var ok bool
		if out[i], ok = strings.CutPrefix(f[i], keys[i]); !ok {
			return nil, fmt.Errorf("field %q is not %s...", f[i], keys[i])
		}
	}
	return out, nil
}

var (
	gwKeys = []string{"auth=", "user=", "pass=", "rdelay=", "rcount=", "predef="}
	clKeys = []string{"cid=", "user=", "pass=", "keepalive=", "ctimeout=", "rdelay=", "rcount=",
		"clean=", "will=", "wmsg=", "wqos=", "wretain=", "predef="}
	linkKeys = []string{"c2g=", "g2c="}
)

// parseGW parses the gateway configuration (as drv_gw's H line).
func parseGW(f []string, h *history) (err error) {
	if f, err = cutKeys(f, gwKeys); err != nil {
		return err
	}
	num := func(s string) int {
		n, e := number(s, 1<<31-1)
		if e != nil {
			err = e
		}
		return n
	}
	opt := func(s string) []byte { // "-" = nil, otherwise a non-nil byte string
		if s == "-" {
			return nil
		}
		b, e := vh.UnHex(s)
		if e != nil {
			err = e
		}
		return append([]byte{}, b...)
	}
	h.gwCfg.AuthEnabled = num(f[0]) == 1
	if u := opt(f[1]); u != nil {
		s := string(u)
		h.gwCfg.MqttUser = &s
	}
	h.gwCfg.MqttPassword = opt(f[2])
	h.gwCfg.RetryDelay = time.Duration(num(f[3])) * time.Millisecond
	h.gwCfg.RetryCount = uint(num(f[4]))
	if err == nil {
		h.gwPredef, err = vh.ParsePredef(f[5])
	}
	return err
}

// parseCL parses the client configuration (as drv_client's H line).
func parseCL(f []string, h *history) (err error) {
	if f, err = cutKeys(f, clKeys); err != nil {
		return err
	}
	num := func(s string, max int) int {
		n, e := number(s, max)
		if e != nil {
			err = e
		}
		return n
	}
	str := func(s string) []byte { // "-" = absent = empty
		if s == "-" {
			return nil
		}
		b, e := vh.UnHex(s)
		if e != nil {
			err = e
		}
		return b
	}
	ms := func(s string) time.Duration { return time.Duration(num(s, 1<<31-1)) * time.Millisecond }
	h.clCfg = client.ClientConfig{
		ClientID:       string(str(f[0])),
		User:           string(str(f[1])),
		Password:       str(f[2]),
		KeepAlive:      time.Duration(num(f[3], 65535)) * time.Second,
		ConnectTimeout: ms(f[4]),
		RetryDelay:     ms(f[5]),
		RetryCount:     uint(num(f[6], 1<<31-1)),
		CleanSession:   num(f[7], 1) == 1,
		WillTopic:      string(str(f[8])),
		WillPayload:    str(f[9]),
		WillQOS:        uint8(num(f[10], 255)),
		WillRetained:   num(f[11], 1) == 1,
	}
	if err == nil {
		h.clCfg.PredefinedTopics, err = vh.ParsePredef(f[12])
	}
	return err
}

func parseFaults(s string) (string, error) {
	if s == "-" {
		return "", nil
	}
	if s == "" || strings.Trim(s, "dx2") != "" {
		return "", fmt.Errorf("bad fault list %q (characters d, x, 2; - for none)", s)
	}
	return s, nil
}

// parseH parses "H <index> GW <gateway cfg> CL <client cfg> LINK c2g=... g2c=...".
func parseH(line string) (h history, err error) {
	f := strings.Split(line, " ")
	iGW, iCL, iLINK := 2, 3+len(gwKeys), 4+len(gwKeys)+len(clKeys)
	if len(f) != iLINK+1+len(linkKeys) || f[0] != "H" || f[iGW] != "GW" || f[iCL] != "CL" || f[iLINK] != "LINK" {
		return h, fmt.Errorf("expected H <index> GW <%d fields> CL <%d fields> LINK <%d fields>",
			len(gwKeys), len(clKeys), len(linkKeys))
	}
	if h.index, err = number(f[1], 1<<31-1); err != nil {
		return h, err
	}
	if err = parseGW(f[iGW+1:iCL], &h); err != nil {
		return h, err
	}
	if err = parseCL(f[iCL+1:iLINK], &h); err != nil {
		return h, err
	}
	lf, err := cutKeys(f[iLINK+1:], linkKeys)
	if err != nil {
		return h, err
	}
	if h.c2g, err = parseFaults(lf[0]); err != nil {
		return h, err
	}
	h.g2c, err = parseFaults(lf[1])
	return h, err
}

var callArity = map[string]int{"CONNECT": 0, "REGISTER": 1, "SUBSCRIBE": 2, "SUBPRE": 2, "PUBLISH": 4, "PUBPRE": 4,
	"UNSUB": 1, "UNSUBPRE": 1, "PING": 0, "SLEEP": 1, "DISCONNECT": 0, "CLOSE": 0}

// parseCall is drv_client's.
func parseCall(op string, a []string) (call callFunc, err error) {
	if n, ok := callArity[op]; !ok {
		return nil, fmt.Errorf("unknown call %q", op)
	} else if len(a) != n {
		return nil, fmt.Errorf("%s takes %d arguments", op, n)
	}
	str := func(i int) string {
		b, e := vh.UnHex(a[i])
		if e != nil {
			err = e
		}
		return string(b)
	}
	num := func(i, max int) int {
		n, e := number(a[i], max)
		if e != nil {
			err = e
		}
		return n
	}
	switch op {
	case "CONNECT":
		call = func(c *client.Client, _ client.MessageHandlerFunc) error { return c.Connect() }
	case "REGISTER":
		t := str(0)
		call = func(c *client.Client, _ client.MessageHandlerFunc) error { return c.Register(t) }
	case "SUBSCRIBE":
		t, q := str(0), uint8(num(1, 255))
		call = func(c *client.Client, h client.MessageHandlerFunc) error { return c.Subscribe(t, q, h) }
	case "SUBPRE":
		t, q := uint16(num(0, 65535)), uint8(num(1, 255))
		call = func(c *client.Client, h client.MessageHandlerFunc) error { return c.SubscribePredefined(t, q, h) }
	case "PUBLISH":
		t, q, r, p := str(0), uint8(num(1, 255)), num(2, 1) == 1, []byte(str(3))
		call = func(c *client.Client, _ client.MessageHandlerFunc) error { return c.Publish(t, p, q, r) }
	case "PUBPRE":
		t, q, r, p := uint16(num(0, 65535)), uint8(num(1, 255)), num(2, 1) == 1, []byte(str(3))
		call = func(c *client.Client, _ client.MessageHandlerFunc) error { return c.PublishPredefined(t, p, q, r) }
	case "UNSUB":
		t := str(0)
		call = func(c *client.Client, _ client.MessageHandlerFunc) error { return c.Unsubscribe(t) }
	case "UNSUBPRE":
		t := uint16(num(0, 65535))
		call = func(c *client.Client, _ client.MessageHandlerFunc) error { return c.UnsubscribePredefined(t) }
	case "PING":
		call = func(c *client.Client, _ client.MessageHandlerFunc) error { return c.Ping() }
	case "SLEEP":
		d := time.Duration(num(0, 1<<31-1)) * time.Millisecond
		call = func(c *client.Client, _ client.MessageHandlerFunc) error { return c.Sleep(d) }
	case "DISCONNECT":
		call = func(c *client.Client, _ client.MessageHandlerFunc) error { return c.Disconnect() }
	case "CLOSE":
		call = func(c *client.Client, _ client.MessageHandlerFunc) error { return c.Close() }
	}
	return call, err
}

func parseE(text string) (ev event, err error) {
	ev.text = text
	var arg string
	ev.kind, arg, _ = strings.Cut(text, " ")
	if ev.kind == "CALLS" {
		ev.kind, ev.sync = "CALL", true
	}
	if ev.kind == "BPUBS" {
		ev.kind, ev.sync = "BPUB", true
	}
	switch ev.kind {
	case "CALL":
		f := strings.Split(arg, " ")
		if len(f) < 2 || f[0] == "" {
			return ev, fmt.Errorf("CALL needs an id and an operation")
		}
		ev.id = f[0]
		ev.call, err = parseCall(f[1], f[2:])
	case "BPUB":
		if ev.pub, err = mqttref.ParseSpec(arg); err == nil && ev.pub.Type != mqttref.PUBLISH {
			err = fmt.Errorf("BPUB takes a PUBLISH")
		}
	case "BBURST":
		// several PUBLISHes separated by " | ", written back to back
		for _, spec := range strings.Split(arg, " | ") {
			var p mqttref.Packet
			if p, err = mqttref.ParseSpec(spec); err != nil {
				break
			}
			if p.Type != mqttref.PUBLISH {
				err = fmt.Errorf("BBURST takes PUBLISHes")
				break
			}
			ev.pubs = append(ev.pubs, p)
		}
	case "ADV":
		ev.ms, err = number(arg, 1<<31-1)
	default:
		err = fmt.Errorf("unknown event kind %q", ev.kind)
	}
	return ev, err
}

// parseHistories parses and validates the whole input before anything is run.
// Empty lines and lines starting with '#' are ignored.
func parseHistories(r io.Reader, name string) ([]history, error) {
	var hs []history
	var cur *history
	ids := map[string]bool{}
	sc := bufio.NewScanner(r)
	sc.Buffer(nil, 1<<26)
	for n := 1; sc.Scan(); n++ {
		line := sc.Text()
		var err error
		switch {
		case line == "" || line[0] == '#':
		case strings.HasPrefix(line, "H ") && cur == nil:
			var h history
			h, err = parseH(line)
			cur, ids = &h, map[string]bool{}
		case strings.HasPrefix(line, "E ") && cur != nil:
			var ev event
			if ev, err = parseE(line[2:]); err == nil && ev.kind == "CALL" && ids[ev.id] {
				err = fmt.Errorf("call id used twice")
			}
			ids[ev.id] = true
			cur.events = append(cur.events, ev)
		case line == "END" && cur != nil:
			hs = append(hs, *cur)
			cur = nil
		default:
			err = fmt.Errorf("unexpected line")
		}
		if err != nil {
			return nil, fmt.Errorf("%s:%d: %v: %q", name, n, err, line)
		}
	}
	if cur != nil {
		return nil, fmt.Errorf("%s: history %d has no END", name, cur.index)
	}
	return hs, sc.Err()
}

func readHistories(path string) ([]history, error) {
	f, err := os.Open(path)
	if err != nil {
		return nil, err
	}
	defer f.Close()
	return parseHistories(f, path)
}

// ---------------------------------------------------------------- output

// trace serialises the lines written from the goroutines of a history (the
// trace writer of drv_gw: lines are written at once, in program order).
type trace struct {
	mu    sync.Mutex
	w     *bufio.Writer
	start time.Time // start of the current bubble
	quiet bool      // drop "O" lines (after the last event of a history)
}

// linef writes a line unconditionally; call with mu held.
func (tr *trace) linef(format string, a ...any) { fmt.Fprintf(tr.w, format+"\n", a...) }

// obsf writes an "O <t> ..." line; call with mu held. The time is rounded to
// the nearest millisecond because what a read deadline triggers happens 1 ns
// before the millisecond (memconn's EarlyDeadline).
func (tr *trace) obsf(format string, a ...any) {
	if !tr.quiet {
		ms := (time.Since(tr.start) + time.Millisecond/2).Milliseconds()
		tr.linef("O %d "+format, append([]any{ms}, a...)...)
	}
}

func (tr *trace) locked(f func()) {
	tr.mu.Lock()
	defer tr.mu.Unlock()
	f()
}

// obs is obsf for callers that do not hold mu.
func (tr *trace) obs(format string, a ...any) { tr.locked(func() { tr.obsf(format, a...) }) }

// panicf writes an "X PANIC" line (never dropped).
func (tr *trace) panicf(v any) { tr.locked(func() { tr.linef("X PANIC %s", oneLine(v)) }) }

// ---------------------------------------------------------------- goroutine census

var bubbleRe = regexp.MustCompile(`(?m)^goroutine \d+ \[.*synctest bubble (\d+)`)

// bubbleGoroutines counts the goroutines of the caller's synctest bubble (the
// runtime marks them in goroutine dumps). Pending timers are not goroutines.
func bubbleGoroutines() int {
	buf := make([]byte, 1<<16)
	for {
		if n := runtime.Stack(buf, true); n < len(buf) {
			buf = buf[:n]
			break
		}
		buf = make([]byte, 2*len(buf))
	}
	ms := bubbleRe.FindAllSubmatch(buf, -1) // the caller comes first in the dump
	n := 0
	for _, m := range ms {
		if string(m[1]) == string(ms[0][1]) {
			n++
		}
	}
	return n
}

// ---------------------------------------------------------------- the link

// link is the MQTT-SN path between the client and the gateway session: two
// memconn.Datagram endpoints, cross-connected through the fault lists. A Write
// on one end is logged and, according to the decision for the k-th datagram
// of that direction, injected 0, 1 or 2 times into the other end, within the
// Write call (same virtual instant).
type link struct {
	cl, gw *memconn.Datagram // the client's connection, the gateway session's MQTT-SN connection

	mu       sync.Mutex // makes "count, decide, log, inject" atomic, so the log order is the delivery order
	faults   [2]string  // c2g, g2c
	count    [2]int     // datagrams written so far per direction
	lossless bool       // wind-down: deliver everything
	held     bool       // BBURST: datagrams of the client are kept back ...
	pending  [][]byte   // ... here, until release (in the order written)

	// CALLS: the synchronous link. A Write of the client returns only after
	// everything the datagram causes has settled: the gateway has handled it
	// and the client's receive loop has handled the gateway's answers. This is
	// the schedule "the peer is faster than the caller" (a slow socket write, a
	// preempted caller): whatever the caller does after its send - arming a
	// timer, storing a transaction - happens after the reply was handled.
	syncOn  bool
	syncGw  bool            // BPUBS: the same for the writes of the gateway session
	blocked []chan struct{} // writers waiting to be let go (by the driver, at quiescence)
}

const (
	c2g = 0
	g2c = 1
)

var dirNames = [2]string{"C2G", "G2C"}

func newLink(faultsC2G, faultsG2C string, tr *trace) *link {
	l := &link{cl: memconn.NewDatagram(), gw: memconn.NewDatagram(), faults: [2]string{faultsC2G, faultsG2C}}
	l.cl.Local, l.cl.Remote = memconn.Addr("mem-client"), memconn.Addr("mem-gateway")
	l.gw.Local, l.gw.Remote = memconn.Addr("mem-gateway"), memconn.Addr("mem-client")
	// The 1 s read deadlines of the client's receive loop and the 100 ms ones of
	// the session's ConnWithContext often coincide with transaction timers. Let
	// the deadlines go first, always.
	l.cl.EarlyDeadline, l.gw.EarlyDeadline = true, true
	l.cl.OnWrite = func(b []byte) {
		l.transfer(c2g, l.gw, b, tr)
		l.mu.Lock()
		var ch chan struct{}
		if l.syncOn {
			ch = make(chan struct{})
			l.blocked = append(l.blocked, ch)
		}
		l.mu.Unlock()
		if ch != nil {
			<-ch
		}
	}
	l.gw.OnWrite = func(b []byte) {
		l.transfer(g2c, l.cl, b, tr)
		l.mu.Lock()
		var ch chan struct{}
		if l.syncGw {
			ch = make(chan struct{})
			l.blocked = append(l.blocked, ch)
		}
		l.mu.Unlock()
		if ch != nil {
			<-ch
		}
	}
	return l
}

// transfer runs in the writer's goroutine (OnWrite gets a copy of the datagram).
func (l *link) transfer(dir int, to *memconn.Datagram, b []byte, tr *trace) {
	l.mu.Lock()
	defer l.mu.Unlock()
	decision := byte('d')
	if k := l.count[dir]; k < len(l.faults[dir]) && !l.lossless {
		decision = l.faults[dir][k]
	}
	l.count[dir]++
	tr.obs("%s %c %s", dirNames[dir], decision, vh.Hex(b))
	n := 0
	switch decision {
	case 'd':
		n = 1
	case '2':
		n = 2
	}
	for ; n > 0; n-- {
		if dir == c2g && l.held {
			l.pending = append(l.pending, b)
		} else {
			to.Inject(b)
		}
	}
}

// hold keeps the client's datagrams back (logged when written, delivered at
// release): the gateway session handles a burst of broker packets before any
// answer of the client to the first of them arrives.
func (l *link) hold() {
	l.mu.Lock()
	l.held = true
	l.mu.Unlock()
}

// waitIfSync blocks the calling writer while the synchronous link is on.
func (l *link) waitIfSync() {
	l.mu.Lock()
	var ch chan struct{}
	if l.syncOn {
		ch = make(chan struct{})
		l.blocked = append(l.blocked, ch)
	}
	l.mu.Unlock()
	if ch != nil {
		<-ch
	}
}

// setSync switches the synchronous link on or off.
func (l *link) setSync(on bool) {
	l.mu.Lock()
	l.syncOn = on
	l.mu.Unlock()
}

func (l *link) setSyncGw(on bool) {
	l.mu.Lock()
	l.syncGw = on
	l.mu.Unlock()
}

// letGo releases the writers that wait on the synchronous link (call it at
// quiescence); it reports whether there were any.
func (l *link) letGo() bool {
	l.mu.Lock()
	b := l.blocked
	l.blocked = nil
	l.mu.Unlock()
	for _, ch := range b {
		close(ch)
	}
	return len(b) > 0
}

func (l *link) release() {
	l.mu.Lock()
	l.held = false
	p := l.pending
	l.pending = nil
	l.mu.Unlock()
	for _, b := range p {
		l.gw.Inject(b)
	}
}

// ---------------------------------------------------------------- the broker

// topicMatches is MQTT 3.1.1 section 4.7 topic matching: levels separated by
// '/', '+' matches exactly one level, a final '#' matches the parent and any
// number of child levels; a filter starting with a wildcard does not match a
// topic starting with '$'.
func topicMatches(filter, topic string) bool {
	if strings.HasPrefix(topic, "$") && (strings.HasPrefix(filter, "+") || strings.HasPrefix(filter, "#")) {
		return false
	}
	f, t := strings.Split(filter, "/"), strings.Split(topic, "/")
	for i, level := range f {
		if level == "#" {
			return i == len(f)-1
		}
		if i >= len(t) || level != "+" && level != t[i] {
			return false
		}
	}
	return len(f) == len(t)
}

// broker is a scripted, conforming MQTT 3.1.1 broker for one connection. It has
// no goroutine of its own: it runs inside the OnWrite callback of the gateway's
// broker connection (i.e. in the gateway goroutine that writes) and answers by
// injecting into the same stream before the Write returns.
type broker struct {
	conn *memconn.Stream
	tr   *trace

	mu      sync.Mutex // the gateway writes from several goroutines; BPUB comes from the driver
	parser  mqttref.Parser
	subs    []mqttref.Filter // subscription table, in order of first subscription
	inQoS2  map[uint16]bool  // QoS 2 PUBLISHes of the gateway for which no PUBREL has come yet
	nextMID uint16           // message ID of the next routed PUBLISH with qos > 0
	closed  bool             // the broker closed the connection (DISCONNECT)

	afterWrite func() // set by the driver: runs in the gateway's writer goroutine after the broker has answered
}

func newBroker(tr *trace) *broker {
	b := &broker{conn: memconn.NewStream(), tr: tr, inQoS2: map[uint16]bool{}, nextMID: 1000}
	b.conn.EarlyDeadline = true
	b.conn.OnWrite = func(data []byte) {
		b.received(data)
		if b.afterWrite != nil {
			b.afterWrite() // the synchronous link: the gateway's writer waits until the broker's answers are handled
		}
	}
	b.conn.OnClose = func() { tr.obs("BRCLOSE") }
	return b
}

// send logs and delivers a packet to the gateway; call with mu held. Nothing is
// sent (nor logged) on a connection that either side has closed.
func (b *broker) send(p mqttref.Packet) {
	if b.closed || b.conn.Closed() {
		return
	}
	b.tr.obs("BS %s", mqttref.Spec(p))
	b.conn.Inject(mqttref.Encode(p))
}

// publish is the BPUB event: the PUBLISH is sent as it is.
func (b *broker) publish(p mqttref.Packet) {
	b.mu.Lock()
	defer b.mu.Unlock()
	b.send(p)
}

// received handles what the gateway has written.
func (b *broker) received(data []byte) {
	b.mu.Lock()
	defer b.mu.Unlock()
	for _, r := range b.parser.Feed(data) {
		switch {
		case r.Garbage:
			b.tr.obs("BR MQGARBAGE %s", vh.Hex(r.Raw))
			continue
		case len(r.Bad) > 0:
			b.tr.obs("BR MQBAD %s %s", strings.Join(r.Bad, ","), mqttref.Spec(r.Packet))
		default:
			b.tr.obs("BR %s", mqttref.Spec(r.Packet))
		}
		b.answer(r.Packet)
	}
}

// pendingGarbage logs an incomplete packet at the end of what the gateway wrote.
func (b *broker) pendingGarbage() {
	b.mu.Lock()
	defer b.mu.Unlock()
	if p := b.parser.Pending(); len(p) > 0 {
		b.tr.obs("BR MQGARBAGE %s", vh.Hex(p))
	}
}

func (b *broker) answer(p mqttref.Packet) {
	ack := func(t mqttref.Type) { b.send(mqttref.Packet{Type: t, MID: p.MID}) }
	switch p.Type {
	case mqttref.CONNECT:
		b.send(mqttref.Packet{Type: mqttref.CONNACK})
	case mqttref.SUBSCRIBE:
		codes := make([]byte, len(p.Filters))
		for i, f := range p.Filters {
			if codes[i] = f.QoS; f.QoS > 2 { // not a valid request (logged as MQBAD): failure
				codes[i] = 0x80
				continue
			}
			b.subscribe(f)
		}
		b.send(mqttref.Packet{Type: mqttref.SUBACK, MID: p.MID, Codes: string(codes)})
	case mqttref.UNSUBSCRIBE:
		for _, f := range p.Filters {
			b.unsubscribe(f.Topic)
		}
		ack(mqttref.UNSUBACK)
	case mqttref.PUBLISH:
		switch {
		case p.QoS == 1:
			ack(mqttref.PUBACK)
		case p.QoS >= 2:
			again := b.inQoS2[p.MID]
			b.inQoS2[p.MID] = true
			ack(mqttref.PUBREC)
			if again { // a repetition of a PUBLISH that is still in flight is not a new message
				return
			}
		}
		b.route(p)
	case mqttref.PUBREL:
		delete(b.inQoS2, p.MID)
		ack(mqttref.PUBCOMP)
	case mqttref.PUBREC:
		ack(mqttref.PUBREL)
	case mqttref.PINGREQ:
		b.send(mqttref.Packet{Type: mqttref.PINGRESP})
	case mqttref.DISCONNECT:
		b.closed = true
		b.conn.CloseRemote()
	}
	// PUBACK, PUBCOMP: recorded only. Packets a client must not send (CONNACK,
	// SUBACK, ...) are recorded only, too.
}

func (b *broker) subscribe(f mqttref.Filter) {
	for i := range b.subs {
		if b.subs[i].Topic == f.Topic { // replaces the existing subscription [MQTT-3.8.4-3]
			b.subs[i].QoS = f.QoS
			return
		}
	}
	b.subs = append(b.subs, f)
}

func (b *broker) unsubscribe(filter string) {
	for i := range b.subs {
		if b.subs[i].Topic == filter {
			b.subs = append(b.subs[:i:i], b.subs[i+1:]...)
			return
		}
	}
}

// route sends a PUBLISH of the gateway back to it if it matches a subscription:
// one copy, with the highest QoS granted by the matching subscriptions
// [MQTT-3.3.5-1], capped by the QoS of the PUBLISH.
func (b *broker) route(p mqttref.Packet) {
	matched, qos := false, byte(0)
	for _, s := range b.subs {
		if topicMatches(s.Topic, p.Topic) {
			matched, qos = true, max(qos, s.QoS)
		}
	}
	if !matched {
		return
	}
	out := mqttref.Packet{Type: mqttref.PUBLISH, QoS: min(p.QoS, qos), Topic: p.Topic, Payload: p.Payload}
	if out.QoS > 0 {
		out.MID = b.nextMID
		b.nextMID++
	}
	b.send(out)
}

// ---------------------------------------------------------------- running

func oneLine(v any) string {
	return strings.Join(strings.Fields(fmt.Sprint(v)), " ")
}

// classify maps the error of an API call to the classes of FORMATS.md (drv_client's).
func classify(err error) string {
	if err == nil {
		return "ok"
	}
	s := err.Error()
	has := func(sub string) bool { return strings.Contains(s, sub) }
	class := "other"
	switch {
	case errors.Is(err, transactions.ErrTimeout), s == "connect timeout", has("did not receive PINGRESP"):
		class = "timeout"
	case errors.Is(err, transactions.ErrNoMoreRetries):
		class = "noretries"
	case errors.Is(err, context.Canceled):
		class = "cancelled"
	case errors.Is(err, net.ErrClosed):
		class = "closed"
	case strings.HasSuffix(s, "not registered!"): // first: the text quotes the topic
		class = "notregistered"
	case has("rejected"):
		class = "rejected"
	case has("cannot call Sleep"):
		class = "state"
	case has("invalid"), has("too long"), has("empty topic"):
		class = "invalid"
	case has("closed"):
		class = "closed"
	}
	return "err:" + class
}

func b2i(b bool) int {
	if b {
		return 1
	}
	return 0
}

// testHook, if set (self-test only), runs inside the bubble before the first event.
var testHook func()

// runHistory runs inside a fresh synctest bubble.
func runHistory(h history, tr *trace) {
	tr.start, tr.quiet = time.Now(), false
	baseline := bubbleGoroutines()
	if testHook != nil {
		testHook()
	}

	lk := newLink(h.c2g, h.g2c, tr)
	br := newBroker(tr)
	// br.afterWrite = lk.waitIfSync is deliberately NOT set: with the gateway's writes to the broker synchronous the
	// broker's close after DISCONNECT ends the session before the gateway has answered the client, and in lossy
	// histories the order of the datagrams of one instant (hence the fault positions) differs from the model's pump
	// order - schedule effects outside the event-atomic model (DESIGN.md, Limits).

	var waiting atomic.Int32 // goroutines of the driver that are inside the client or the gateway
	spawn := func(f func()) {
		waiting.Add(1)
		go func() {
			defer waiting.Add(-1)
			defer func() { // only panics of the calling goroutine can be caught
				if r := recover(); r != nil {
					tr.panicf(r)
				}
			}()
			f()
		}()
	}

	// The gateway session.
	session := gateway.NewVerifShared(h.gwCfg, h.gwPredef).NewSession(br.conn, util.NoOpLogger{})
	ctx, cancel := context.WithCancel(context.Background())
	defer cancel()
	var gwEnded atomic.Bool // Run returned
	spawn(func() {
		defer gwEnded.Store(true) // also when Run panics (its own goroutine only: "X PANIC")
		session.Run(ctx, lk.gw)
		tr.obs("GWEND")
	})

	// The client.
	cfg := h.clCfg
	c := client.NewClient(util.NoOpLogger{}, &cfg)
	c.VerifSetDial(func() (net.Conn, error) { return lk.cl, nil })
	if err := c.Dial("ignored"); err != nil {
		panic(err) // impossible with VerifSetDial
	}
	var exited atomic.Bool // Wait() returned
	spawn(func() {
		c.Wait()
		exited.Store(true)
		tr.obs("EXIT")
	})
	synctest.Wait()

	for k, ev := range h.events {
		tr.locked(func() { // flushed first: after a crash the trace shows the event that caused it
			tr.linef("E %d %s", k, ev.text)
			tr.w.Flush()
		})
		switch ev.kind {
		case "CALL":
			handler := func(_ *client.Client, topic string, p *pkts1.Publish) {
				tr.obs("CB %s %s %s qos=%d retain=%d dup=%d mid=%d", ev.id, vh.HexS(topic), vh.Hex(p.Data),
					p.QOS, b2i(p.Retain), b2i(p.DUP()), p.MessageID())
			}
			if ev.sync {
				lk.setSync(true)
			}
			spawn(func() { tr.obs("RET %s %s", ev.id, classify(ev.call(c, handler))) })
			if ev.sync {
				// settle, let the blocked writers go, settle again ... (all at one virtual instant)
				for i := 0; i < 1000; i++ {
					synctest.Wait()
					if !lk.letGo() {
						break
					}
				}
				lk.setSync(false)
				lk.letGo()
			}
		case "BPUB":
			if ev.sync {
				lk.setSyncGw(true)
			}
			br.publish(ev.pub)
			if ev.sync {
				for i := 0; i < 1000; i++ {
					synctest.Wait()
					if !lk.letGo() {
						break
					}
				}
				lk.setSyncGw(false)
				lk.letGo()
			}
		case "BBURST":
			lk.hold()
			for _, p := range ev.pubs {
				br.publish(p)
			}
			synctest.Wait()
			lk.release()
		case "ADV":
			time.Sleep(time.Duration(ev.ms) * time.Millisecond)
		}
		synctest.Wait()
		tr.locked(func() { tr.w.Flush() })
	}

	// Wind both ends down without logging what that causes, over a link that
	// does not lose anything any more: Close the client (at most a DISCONNECT
	// with all its retries; while the session still runs, it is answered and the
	// session ends, too), cancel the context of the session, then time for
	// whatever is pending (the sleep transaction waits up to 60 s for a PINGRESP).
	br.pendingGarbage() // an incomplete packet was written
	tr.locked(func() { tr.quiet = true })
	lk.mu.Lock()
	lk.lossless = true
	lk.mu.Unlock()
	// Half a millisecond first: the timers of Close's DISCONNECT must not tie
	// with those that are pending (all at whole milliseconds or 1 ns before).
	time.Sleep(time.Millisecond / 2)
	synctest.Wait()
	if !exited.Load() {
		spawn(func() { c.Close() })
	}
	synctest.Wait()
	cancel()
	synctest.Wait()
	settled := func() bool { return exited.Load() && gwEnded.Load() && waiting.Load() == 0 }
	for i := 0; i < 10 && !settled(); i++ { // the read deadlines of the session's connections
		time.Sleep(100 * time.Millisecond)
		synctest.Wait()
	}
	limit := 200 + int((cfg.RetryDelay*time.Duration(cfg.RetryCount+2)+cfg.ConnectTimeout)/time.Second)
	for i := 0; i < limit && !settled(); i++ {
		time.Sleep(time.Second)
		synctest.Wait()
	}
	leak := bubbleGoroutines() - baseline
	tr.locked(func() {
		if leak > 0 || !settled() {
			tr.linef("X LEAK %d", max(leak, 1))
		}
	})
	if leak > 0 || !settled() {
		// Closing the connections ends the receive loops: whatever can still
		// finish does (silently). What cannot makes synctest panic when this
		// function returns, see bubble.
		lk.cl.Close()
		lk.gw.Close()
		br.conn.Close()
		for i := 0; i < 3; i++ {
			time.Sleep(time.Second)
			synctest.Wait()
		}
	}
	tr.locked(func() {
		tr.linef("END")
		tr.w.Flush()
	})
}

// bubble runs f in a synctest bubble. If goroutines (durably blocked ones) are
// left behind when f returns, synctest panics in the calling goroutine: that
// panic is returned instead (the leak is already in the trace as "X LEAK").
func bubble(t *testing.T, f func()) (leftover any) {
	defer func() { leftover = recover() }()
	runtime.GC() // between the bubbles only, see TestMain
	synctest.Test(t, func(*testing.T) { f() })
	return nil
}

// TestMain makes scheduling as repeatable as possible for goroutines that
// become runnable at the same virtual instant (e.g. two retry timers): one P,
// and no garbage collection (hence no preemption by it) while a history runs.
//
// Given -hist, the binary is the driver: only TestDrive runs.
func TestMain(m *testing.M) {
	flag.Parse()
	if *histFlag != "" {
		flag.Set("test.run", "^TestDrive$")
	}
	runtime.GOMAXPROCS(1)
	debug.SetGCPercent(-1)
	debug.SetMemoryLimit(256 << 20) // ...unless a very long history needs it
	os.Exit(m.Run())
}

func TestDrive(t *testing.T) {
	if *histFlag == "" {
		t.Skip("no -hist file given")
	}
	hs, err := readHistories(*histFlag)
	if err != nil {
		t.Fatal(err)
	}
	out := os.Stdout
	if *outFlag != "" {
		mode := os.O_WRONLY | os.O_CREATE | os.O_TRUNC
		if *startFlag > 0 {
			mode = os.O_WRONLY | os.O_CREATE | os.O_APPEND
		}
		if out, err = os.OpenFile(*outFlag, mode, 0o644); err != nil {
			t.Fatal(err)
		}
		defer out.Close()
	}
	tr := &trace{w: bufio.NewWriter(out)}
	for _, h := range hs {
		if h.index < *startFlag {
			continue
		}
		tr.linef("H %d", h.index)
		if err := tr.w.Flush(); err != nil {
			t.Fatal(err)
		}
		if p := bubble(t, func() { runHistory(h, tr) }); p != nil {
			fmt.Fprintf(os.Stderr, "drv_e2e: history %d: %s\n", h.index, oneLine(p))
		}
	}
}
