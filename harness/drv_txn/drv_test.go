package drv_txn

import (
	"bufio"
	"context"
	"errors"
	"flag"
	"fmt"
	"os"
	"runtime"
	"runtime/debug"
	"strconv"
	"strings"
	"sync"
	"testing"
	"testing/synctest"
	"time"

	"github.com/energomonitor/bisquitt/transactions"
)

var (
	histFlag  = flag.String("hist", "", "transaction history file (input)")
	outFlag   = flag.String("out", "", "trace file (output; appended to when -start > 0; empty = stdout)")
	startFlag = flag.Int("start", 0, "skip histories with index < start")
)

// ---------------------------------------------------------------- input

type event struct {
	text string // as in the history, without the leading "E "
	kind string // PROCEED, SUCCESS, FAIL, CBFAIL, CANCEL, ADV
	n    int    // PROCEED: state and data; CBFAIL: 0|1; ADV: ms
	tag  string // FAIL
}

type history struct {
	index  int
	retry  bool
	delay  time.Duration
	count  uint
	events []event
}

func parseH(line string) (h history, err error) {
	f := strings.Split(line, " ")
	keys := []string{"H", "", "kind=", "delay=", "count="}
	if len(f) != len(keys) {
		return h, fmt.Errorf("expected %d fields", len(keys))
	}
	for i := 2; i < len(f); i++ {
		var ok bool
		if f[i], ok = strings.CutPrefix(f[i], keys[i]); !ok {
			return h, fmt.Errorf("field %d is not %s...", i, keys[i])
		}
	}
	num := func(s string) int {
		n, e := strconv.Atoi(s)
		if e != nil || n < 0 {
			err = fmt.Errorf("bad number %q", s)
		}
		return n
	}
	h.index, h.retry = num(f[1]), f[2] == "retry"
	h.delay, h.count = time.Duration(num(f[3]))*time.Millisecond, uint(num(f[4]))
	if f[2] != "retry" && f[2] != "timed" {
		err = fmt.Errorf("bad kind %q", f[2])
	}
	return h, err
}

func parseE(text string, retry bool) (ev event, err error) {
	ev.text = text
	var arg string
	ev.kind, arg, _ = strings.Cut(text, " ")
	switch ev.kind {
	case "PROCEED", "CBFAIL", "ADV":
		if ev.n, err = strconv.Atoi(arg); err == nil && (ev.n < 0 || ev.kind == "CBFAIL" && ev.n > 1) {
			err = fmt.Errorf("bad number")
		}
		if ev.kind == "PROCEED" && !retry {
			err = fmt.Errorf("PROCEED needs kind=retry")
		}
	case "FAIL":
		if ev.tag = arg; arg == "" || strings.ContainsAny(arg, " \t") {
			err = fmt.Errorf("bad tag")
		}
	case "SUCCESS", "CANCEL":
		if arg != "" {
			err = fmt.Errorf("unexpected argument")
		}
	default:
		err = fmt.Errorf("unknown event kind %q", ev.kind)
	}
	return ev, err
}

// readHistories parses and validates the whole file before anything is run.
// Empty lines and lines starting with '#' are ignored.
func readHistories(path string) ([]history, error) {
	f, err := os.Open(path)
	if err != nil {
		return nil, err
	}
	defer f.Close()
	var hs []history
	var cur *history
	sc := bufio.NewScanner(f)
	sc.Buffer(nil, 1<<26)
	for n := 1; sc.Scan(); n++ {
		line := sc.Text()
		var err error
		switch {
		case line == "" || line[0] == '#':
		case strings.HasPrefix(line, "H ") && cur == nil:
			var h history
			h, err = parseH(line)
			cur = &h
		case strings.HasPrefix(line, "E ") && cur != nil:
			var ev event
			ev, err = parseE(line[2:], cur.retry)
			cur.events = append(cur.events, ev)
		case line == "END" && cur != nil:
			hs = append(hs, *cur)
			cur = nil
		default:
			err = fmt.Errorf("unexpected line")
		}
		if err != nil {
			return nil, fmt.Errorf("%s:%d: %v: %q", path, n, err, line)
		}
	}
	if cur != nil {
		return nil, fmt.Errorf("%s: history %d has no END", path, cur.index)
	}
	return hs, sc.Err()
}

// ---------------------------------------------------------------- output

// trace serialises the lines written from the timer and watcher goroutines.
// All fields below mu are guarded by it.
type trace struct {
	mu        sync.Mutex
	w         *bufio.Writer
	start     time.Time // start of the current bubble
	quiet     bool      // drop "O" lines (after the last event of a history)
	cbFail    bool      // the retry callback returns errCb
	finally   int       // how often finally ran
	callbacks int       // how often the retry callback ran
}

func (tr *trace) linef(format string, a ...any) { fmt.Fprintf(tr.w, format+"\n", a...) }

func (tr *trace) ms() int64 { return time.Since(tr.start).Milliseconds() }

func (tr *trace) obsf(format string, a ...any) {
	if !tr.quiet {
		tr.linef("O %d "+format, append([]any{tr.ms()}, a...)...)
	}
}

func (tr *trace) locked(f func()) {
	tr.mu.Lock()
	defer tr.mu.Unlock()
	f()
}

// ---------------------------------------------------------------- running

var errCb = errors.New("callback failure")

func oneLine(v any) string {
	return strings.Join(strings.Fields(fmt.Sprint(v)), " ")
}

func classify(err error, tags map[error]string) string {
	switch tag, ok := tags[err]; {
	case err == nil:
		return "nil"
	case ok:
		return "tag:" + tag
	case err == transactions.ErrTimeout:
		return "timeout"
	case err == transactions.ErrNoMoreRetries:
		return "noretries"
	case errors.Is(err, context.Canceled):
		return "cancelled"
	}
	return "other"
}

// runHistory runs inside a fresh synctest bubble.
func runHistory(h history, tr *trace) {
	tr.locked(func() {
		tr.start, tr.quiet, tr.cbFail, tr.finally, tr.callbacks = time.Now(), false, false, 0, 0
	})
	ctx, cancel := context.WithCancel(context.Background())
	stop := make(chan struct{}) // releases the watcher of a transaction that never finishes
	defer func() {
		r := recover() // only panics of this goroutine can be caught
		tr.locked(func() {
			if r != nil {
				tr.linef("X PANIC %s", oneLine(r))
			}
			tr.quiet = true
		})
		// Wind down without logging: the implicit cancel lets the transaction's
		// goroutine go; pending timers are dropped with the bubble.
		cancel()
		close(stop)
		synctest.Wait()
		tr.locked(func() {
			tr.linef("END")
			tr.w.Flush()
		})
	}()

	finally := func() {
		tr.locked(func() {
			tr.finally++
			tr.obsf("FINALLY")
		})
	}
	callback := func(data any) (err error) {
		tr.locked(func() {
			tr.callbacks++
			tr.obsf("CALLBACK %v", data)
			if tr.cbFail {
				err = errCb
			}
		})
		return err
	}
	var t transactions.Transaction
	var rt *transactions.RetryTransaction
	if h.retry {
		rt = transactions.NewRetryTransaction(ctx, h.delay, h.count, callback, finally)
		t = rt
	} else {
		t = transactions.NewTimedTransaction(ctx, h.delay, finally)
	}
	go func() {
		select {
		case <-t.Done():
			tr.locked(func() { tr.obsf("DONE") })
		case <-stop:
		}
	}()
	synctest.Wait()

	tags := map[error]string{errCb: "cb"}
	for k, ev := range h.events {
		tr.locked(func() { // flushed first: after a crash the trace shows the event that caused it
			tr.linef("E %d %s", k, ev.text)
			tr.w.Flush()
		})
		switch ev.kind {
		case "PROCEED":
			rt.Proceed(ev.n, ev.n)
		case "SUCCESS":
			t.Success()
		case "FAIL":
			err := errors.New(ev.tag)
			tags[err] = ev.tag
			t.Fail(err)
		case "CBFAIL":
			tr.locked(func() { tr.cbFail = ev.n == 1 })
		case "CANCEL":
			cancel()
		case "ADV":
			time.Sleep(time.Duration(ev.n) * time.Millisecond)
		}
		synctest.Wait()
		done := 0
		select {
		case <-t.Done():
			done = 1
		default:
		}
		err := classify(t.Err(), tags)
		tr.locked(func() {
			tr.linef("S %d done=%d err=%s finally=%d callbacks=%d", tr.ms(), done, err, tr.finally, tr.callbacks)
			tr.w.Flush()
		})
	}
}

// bubble runs f in a synctest bubble. If durably blocked goroutines are left
// behind when f returns, synctest panics in the calling goroutine: that panic
// is returned instead.
func bubble(t *testing.T, f func()) (leftover any) {
	defer func() { leftover = recover() }()
	runtime.GC() // between the bubbles only, see TestMain
	synctest.Test(t, func(*testing.T) { f() })
	return nil
}

// TestMain makes scheduling as repeatable as possible for goroutines that
// become runnable at the same virtual instant: one P, and no garbage
// collection (hence no preemption by it) while a history runs.
//
// Given -hist, the binary is the driver: only TestDrive runs.
func TestMain(m *testing.M) {
	flag.Parse()
	if *histFlag != "" {
		flag.Set("test.run", "^TestDrive$")
	}
	runtime.GOMAXPROCS(1)
	debug.SetGCPercent(-1)
	debug.SetMemoryLimit(256 << 20) // ...unless a very long history needs it
	os.Exit(m.Run())
}

func TestDrive(t *testing.T) {
	if *histFlag == "" {
		t.Skip("no -hist file given")
	}
	hs, err := readHistories(*histFlag)
	if err != nil {
		t.Fatal(err)
	}
	out := os.Stdout
	if *outFlag != "" {
		mode := os.O_WRONLY | os.O_CREATE | os.O_TRUNC
		if *startFlag > 0 {
			mode = os.O_WRONLY | os.O_CREATE | os.O_APPEND
		}
		if out, err = os.OpenFile(*outFlag, mode, 0o644); err != nil {
			t.Fatal(err)
		}
		defer out.Close()
	}
	tr := &trace{w: bufio.NewWriter(out)}
	for _, h := range hs {
		if h.index < *startFlag {
			continue
		}
		tr.linef("H %d", h.index)
		if err := tr.w.Flush(); err != nil {
			t.Fatal(err)
		}
		if p := bubble(t, func() { runHistory(h, tr) }); p != nil {
			fmt.Fprintf(os.Stderr, "drv_txn: history %d: %s\n", h.index, oneLine(p))
		}
	}
}
