// Package drv_txn is the transaction correspondence driver, a test binary like
// drv_gw because testing/synctest needs a *testing.T:
//
//	go1.26 test -c -tags verif -o drv_txn.test ./drv_txn
//	./drv_txn.test -hist histories.txt -out trace.txt [-start N]
//
// For every history (formats: ../FORMATS.md, "Transaction histories") it
// creates one real RetryTransaction or TimedTransaction inside its own
// synctest bubble, performs the events and writes what the transaction does.
// The trace is flushed after every event so that a crash is attributable; the
// caller then restarts with -start <index+1>, which appends to -out.
package drv_txn
