// skeleton regenerates, from /repo's current source, the structural facts the hand-written
// Coq models assume and differential execution cannot force: which method bodies run
// entirely under which mutex (atomicity of IDSequence, TransactionStore, TransactionBase,
// RetryTransaction, TimedTransaction), which helper functions are only called with the lock
// held, and which topics.* function each command-line tool applies to which flag.
// Output: sorted text lines, position-free (no line numbers), so formatting, comments and
// renaming of locals do not change it.
package main

import (
	"flag"
	"fmt"
	"go/ast"
	"go/parser"
	"go/token"
	"os"
	"path/filepath"
	"sort"
	"strings"
)

var out []string

func emit(format string, a ...interface{}) { out = append(out, fmt.Sprintf(format, a...)) }

func exprString(e ast.Expr) string {
	switch x := e.(type) {
	case *ast.Ident:
		return x.Name
	case *ast.SelectorExpr:
		return exprString(x.X) + "." + x.Sel.Name
	case *ast.CallExpr:
		return exprString(x.Fun) + "()"
	case *ast.StarExpr:
		return "*" + exprString(x.X)
	case *ast.BasicLit:
		return x.Value
	case *ast.Ellipsis:
		return "..."
	}
	return "?"
}

func recvInfo(fd *ast.FuncDecl) (name, typ string) {
	if fd.Recv == nil || len(fd.Recv.List) == 0 {
		return "", ""
	}
	f := fd.Recv.List[0]
	if len(f.Names) > 0 {
		name = f.Names[0].Name
	}
	t := f.Type
	if s, ok := t.(*ast.StarExpr); ok {
		t = s.X
	}
	if id, ok := t.(*ast.Ident); ok {
		typ = id.Name
	}
	return
}

// lockPrefix recognises   recv.<path>Lock() ; defer recv.<path>Unlock()   at the start of a body
// (R variants included) and returns the mutex path ("" when the body is not of this shape).
func lockPrefix(recv string, body *ast.BlockStmt) string {
	if body == nil || len(body.List) < 2 {
		return ""
	}
	es, ok := body.List[0].(*ast.ExprStmt)
	if !ok {
		return ""
	}
	call, ok := es.X.(*ast.CallExpr)
	if !ok {
		return ""
	}
	s := exprString(call.Fun)
	if !strings.HasPrefix(s, recv+".") || !(strings.HasSuffix(s, "Lock")) {
		return ""
	}
	ds, ok := body.List[1].(*ast.DeferStmt)
	if !ok {
		return ""
	}
	u := exprString(ds.Call.Fun)
	want := strings.TrimSuffix(s, "Lock")
	if u != want+"Unlock" {
		return ""
	}
	return strings.TrimPrefix(s, recv+".")
}

// methodCalls lists recv.m(...) calls inside a body, with whether they sit inside an explicit
// recv.X.Lock() ... recv.X.Unlock() pair of the same block (for the context watcher).
func methodCalls(recv string, body *ast.BlockStmt) []string {
	var res []string
	if body == nil {
		return res
	}
	ast.Inspect(body, func(n ast.Node) bool {
		if c, ok := n.(*ast.CallExpr); ok {
			s := exprString(c.Fun)
			if strings.HasPrefix(s, recv+".") && strings.Count(s, ".") == 1 {
				res = append(res, strings.TrimPrefix(s, recv+"."))
			}
		}
		return true
	})
	sort.Strings(res)
	return res
}

func lockFacts(repo, rel string, types map[string]bool) {
	fset := token.NewFileSet()
	f, err := parser.ParseFile(fset, filepath.Join(repo, rel), nil, 0)
	if err != nil {
		emit("ERROR parse %s %v", rel, err)
		return
	}
	for _, d := range f.Decls {
		fd, ok := d.(*ast.FuncDecl)
		if !ok {
			continue
		}
		recv, typ := recvInfo(fd)
		if !types[typ] {
			continue
		}
		mu := lockPrefix(recv, fd.Body)
		if mu == "" {
			mu = "-"
		}
		calls := methodCalls(recv, fd.Body)
		// drop the Lock/Unlock calls themselves (they are selector chains of depth 2 anyway)
		emit("LOCK %s %s.%s whole-body-under=%s calls=%s", rel, typ, fd.Name.Name, mu, strings.Join(uniq(calls), ","))
	}
	// goroutines spawned in constructors: what they do on ctx.Done()
	ast.Inspect(f, func(n ast.Node) bool {
		g, ok := n.(*ast.GoStmt)
		if !ok {
			return true
		}
		var acts []string
		ast.Inspect(g.Call, func(m ast.Node) bool {
			if cc, ok := m.(*ast.CommClause); ok {
				comm := "default"
				if cc.Comm != nil {
					if es, ok := cc.Comm.(*ast.ExprStmt); ok {
						comm = exprString(es.X)
					}
				}
				var body []string
				for _, st := range cc.Body {
					if es, ok := st.(*ast.ExprStmt); ok {
						body = append(body, exprString(es.X))
					} else if _, ok := st.(*ast.ReturnStmt); ok {
						body = append(body, "return")
					}
				}
				acts = append(acts, comm+"=>"+strings.Join(body, ";"))
			}
			return true
		})
		emit("GO %s select{%s}", rel, strings.Join(acts, " | "))
		return true
	})
}

func uniq(l []string) []string {
	var r []string
	for i, x := range l {
		if i == 0 || x != l[i-1] {
			r = append(r, x)
		}
	}
	return r
}

// cliFacts: inside the file, every call topics.F(args) with the flag constants appearing in args,
// in source order, plus the Merge calls.
func cliFacts(repo, rel string) {
	fset := token.NewFileSet()
	f, err := parser.ParseFile(fset, filepath.Join(repo, rel), nil, 0)
	if err != nil {
		emit("ERROR parse %s %v", rel, err)
		return
	}
	k := 0
	ast.Inspect(f, func(n ast.Node) bool {
		c, ok := n.(*ast.CallExpr)
		if !ok {
			return true
		}
		s := exprString(c.Fun)
		if strings.HasPrefix(s, "topics.") || strings.HasSuffix(s, ".Merge") {
			var args []string
			for _, a := range c.Args {
				args = append(args, flagsIn(a))
			}
			emit("CLI %s #%d %s(%s)", rel, k, s, strings.Join(args, ";"))
			k++
		}
		return true
	})
	// guards around the plaintext-credentials refusal
	ast.Inspect(f, func(n ast.Node) bool {
		is, ok := n.(*ast.IfStmt)
		if !ok {
			return true
		}
		cond := condString(is.Cond)
		if strings.Contains(cond, "useDTLS") || strings.Contains(cond, "InsecureFlag") || strings.Contains(cond, "insecure") {
			ret := false
			for _, st := range is.Body.List {
				if _, ok := st.(*ast.ReturnStmt); ok {
					ret = true
				}
			}
			emit("GUARD %s if %s returns-error=%v", rel, cond, ret)
		}
		return true
	})
}

func flagsIn(e ast.Expr) string {
	var fl []string
	ast.Inspect(e, func(n ast.Node) bool {
		if id, ok := n.(*ast.Ident); ok && strings.HasSuffix(id.Name, "Flag") {
			fl = append(fl, id.Name)
		}
		if c, ok := n.(*ast.CallExpr); ok {
			fl = append(fl, exprString(c.Fun))
		}
		return true
	})
	return strings.Join(fl, " ")
}

func condString(e ast.Expr) string {
	switch x := e.(type) {
	case *ast.BinaryExpr:
		return "(" + condString(x.X) + " " + x.Op.String() + " " + condString(x.Y) + ")"
	case *ast.UnaryExpr:
		return x.Op.String() + condString(x.X)
	case *ast.ParenExpr:
		return condString(x.X)
	case *ast.CallExpr:
		var a []string
		for _, y := range x.Args {
			a = append(a, condString(y))
		}
		return exprString(x.Fun) + "(" + strings.Join(a, ",") + ")"
	default:
		return exprString(e)
	}
}

// panicFacts: census of the expressions that can panic at run time in the session code
// (gateway/, client/, transactions/, util/; non-test files): unchecked type assertions, index
// and slice expressions, explicit panic() and close() calls, conversions through a nil-able
// pointer are not recognisable syntactically and are not listed.  One line per site:
//   PANIC <file> <func> <kind> <expression text>
// Position-free; a site that appears, disappears or changes its text changes the line set.
func panicFacts(repo, dir string) {
	fset := token.NewFileSet()
	matches, _ := filepath.Glob(filepath.Join(repo, dir, "*.go"))
	sort.Strings(matches)
	for _, path := range matches {
		if strings.HasSuffix(path, "_test.go") || strings.HasSuffix(path, "verif_hooks.go") {
			continue
		}
		rel, _ := filepath.Rel(repo, path)
		f, err := parser.ParseFile(fset, path, nil, 0)
		if err != nil {
			emit("ERROR parse %s %v", rel, err)
			continue
		}
		for _, d := range f.Decls {
			fd, ok := d.(*ast.FuncDecl)
			if !ok || fd.Body == nil {
				continue
			}
			_, typ := recvInfo(fd)
			fn := fd.Name.Name
			if typ != "" {
				fn = typ + "." + fn
			}
			// comma-ok assertions and type switches do not panic
			safe := map[ast.Node]bool{}
			ast.Inspect(fd.Body, func(n ast.Node) bool {
				switch x := n.(type) {
				case *ast.AssignStmt:
					if len(x.Lhs) == 2 && len(x.Rhs) == 1 {
						if ta, ok := x.Rhs[0].(*ast.TypeAssertExpr); ok {
							safe[ta] = true
						}
						if ie, ok := x.Rhs[0].(*ast.IndexExpr); ok { // v, ok := m[k]: a map lookup
							safe[ie] = true
						}
					}
				case *ast.ValueSpec:
					if len(x.Names) == 2 && len(x.Values) == 1 {
						if ta, ok := x.Values[0].(*ast.TypeAssertExpr); ok {
							safe[ta] = true
						}
					}
				case *ast.TypeSwitchStmt:
					ast.Inspect(x.Assign, func(m ast.Node) bool {
						if ta, ok := m.(*ast.TypeAssertExpr); ok {
							safe[ta] = true
						}
						return true
					})
				}
				return true
			})
			ast.Inspect(fd.Body, func(n ast.Node) bool {
				switch x := n.(type) {
				case *ast.TypeAssertExpr:
					if !safe[x] && x.Type != nil {
						emit("PANIC %s %s assert %s.(%s)", rel, fn, condString(x.X), condString(x.Type))
					}
				case *ast.IndexExpr:
					if !safe[x] {
						emit("PANIC %s %s index %s[%s]", rel, fn, condString(x.X), condString(x.Index))
					}
				case *ast.SliceExpr:
					lo, hi := "", ""
					if x.Low != nil {
						lo = condString(x.Low)
					}
					if x.High != nil {
						hi = condString(x.High)
					}
					emit("PANIC %s %s slice %s[%s:%s]", rel, fn, condString(x.X), lo, hi)
				case *ast.CallExpr:
					if id, ok := x.Fun.(*ast.Ident); ok && (id.Name == "panic" || id.Name == "close") {
						var a []string
						for _, y := range x.Args {
							a = append(a, condString(y))
						}
						emit("PANIC %s %s %s %s", rel, fn, id.Name, strings.Join(a, ","))
					}
				}
				return true
			})
		}
	}
}

func main() {
	repo := flag.String("repo", "/repo", "repository root")
	flag.Parse()
	lockFacts(*repo, "util/id_sequence.go", map[string]bool{"IDSequence": true})
	lockFacts(*repo, "transactions/transaction_store.go", map[string]bool{"TransactionStore": true})
	lockFacts(*repo, "transactions/transaction_base.go", map[string]bool{"TransactionBase": true})
	lockFacts(*repo, "transactions/retry_transaction.go", map[string]bool{"RetryTransaction": true})
	lockFacts(*repo, "transactions/timed_transaction.go", map[string]bool{"TimedTransaction": true})
	for _, t := range []string{"bisquitt", "bisquitt-pub", "bisquitt-sub"} {
		cliFacts(*repo, "cmd/"+t+"/actions.go")
	}
	for _, d := range []string{"gateway", "client", "transactions", "util"} {
		panicFacts(*repo, d)
	}
	sort.Strings(out)
	for _, l := range out {
		fmt.Println(l)
	}
	_ = os.Stdout
}
