package memconn

import (
	"errors"
	"io"
	"net"
	"os"
	"testing"
	"testing/synctest"
	"time"
)

func isTimeout(err error) bool {
	e, ok := err.(net.Error)
	return ok && e.Timeout() && e.Temporary()
}

func TestDatagramBoundariesAndTruncation(t *testing.T) {
	c := NewDatagram()
	c.Inject([]byte("hello"))
	c.Inject([]byte("wor"))
	c.Inject(nil)
	p := make([]byte, 4)
	if n, err := c.Read(p); n != 4 || err != nil || string(p[:n]) != "hell" {
		t.Fatalf("read 1: %d %v %q", n, err, p[:n])
	}
	if n, err := c.Read(p); n != 3 || err != nil || string(p[:n]) != "wor" {
		t.Fatalf("read 2: %d %v %q", n, err, p[:n])
	}
	if n, err := c.Read(p); n != 0 || err != nil {
		t.Fatalf("read 3 (empty datagram): %d %v", n, err)
	}
}

func TestDatagramWriteCallbackPeerAndFaults(t *testing.T) {
	a, b := DatagramPair()
	var seen []string
	a.OnWrite = func(p []byte) { seen = append(seen, string(p)) }
	mode := 0
	a.Deliver = func(p []byte) [][]byte {
		switch mode {
		case 0:
			return nil // loss
		case 1:
			return [][]byte{p, p} // duplication
		}
		return [][]byte{p}
	}
	buf := []byte("m0")
	for mode = 0; mode < 3; mode++ {
		buf[1] = byte('0' + mode)
		if n, err := a.Write(buf); n != 2 || err != nil {
			t.Fatal(n, err)
		}
	}
	buf[0] = 'X' // callbacks and the peer must have got copies
	if len(seen) != 3 || seen[0] != "m0" || seen[2] != "m2" {
		t.Fatalf("OnWrite saw %q", seen)
	}
	p := make([]byte, 10)
	for _, want := range []string{"m1", "m1", "m2"} {
		if n, err := b.Read(p); err != nil || string(p[:n]) != want {
			t.Fatalf("peer read %q %v, want %q", p[:n], err, want)
		}
	}
	b.SetReadDeadline(time.Now().Add(-time.Second))
	if _, err := b.Read(p); !isTimeout(err) {
		t.Fatalf("expected timeout on empty queue, got %v", err)
	}
}

func TestCloseUnblocksRead(t *testing.T) {
	for _, c := range []net.Conn{NewDatagram(), NewStream()} {
		closed := 0
		switch c := c.(type) {
		case *Datagram:
			c.OnClose = func() { closed++ }
		case *Stream:
			c.OnClose = func() { closed++ }
		}
		res := make(chan error)
		go func() { _, err := c.Read(make([]byte, 1)); res <- err }()
		time.Sleep(10 * time.Millisecond)
		if err := c.Close(); err != nil {
			t.Fatal(err)
		}
		if err := <-res; !errors.Is(err, net.ErrClosed) {
			t.Fatalf("%T: blocked Read returned %v", c, err)
		}
		if _, err := c.Read(make([]byte, 1)); !errors.Is(err, net.ErrClosed) {
			t.Fatalf("%T: Read after Close returned %v", c, err)
		}
		if _, err := c.Write([]byte{1}); !errors.Is(err, net.ErrClosed) {
			t.Fatalf("%T: Write after Close returned %v", c, err)
		}
		if err := c.Close(); !errors.Is(err, net.ErrClosed) || closed != 1 {
			t.Fatalf("%T: second Close: %v, OnClose calls %d", c, err, closed)
		}
		if c.LocalAddr() == nil || c.RemoteAddr().String() == "" {
			t.Fatal("addresses")
		}
	}
}

func TestStream(t *testing.T) {
	c := NewStream()
	var w []byte
	c.OnWrite = func(b []byte) { w = append(w, b...) }
	c.Write([]byte("ab"))
	c.Write([]byte("c"))
	if string(w) != "abc" {
		t.Fatalf("OnWrite got %q", w)
	}
	c.Inject([]byte("hel"))
	c.Inject([]byte("lo"))
	p := make([]byte, 4)
	if n, err := c.Read(p); n != 4 || err != nil || string(p) != "hell" {
		t.Fatal(n, err)
	}
	c.CloseRemote()
	c.Inject([]byte("lost"))
	if n, err := c.Read(p); n != 1 || err != nil || p[0] != 'o' {
		t.Fatal(n, err)
	}
	for i := 0; i < 2; i++ {
		if n, err := c.Read(p); n != 0 || err != io.EOF {
			t.Fatal(n, err)
		}
	}
}

// The deadline uses the bubble's clock: a Read with a 100 ms deadline returns a
// timeout at virtual 100 ms, and a blocked reader is woken by Inject.
func TestSynctestDeadline(t *testing.T) {
	synctest.Test(t, func(t *testing.T) {
		start := time.Now()
		for _, c := range []net.Conn{NewDatagram(), NewStream()} {
			t0 := time.Now()
			c.SetReadDeadline(t0.Add(100 * time.Millisecond))
			_, err := c.Read(make([]byte, 8))
			if !isTimeout(err) || !errors.Is(err, os.ErrDeadlineExceeded) {
				t.Fatalf("%T: expected timeout, got %v", c, err)
			}
			if d := time.Since(t0); d != 100*time.Millisecond {
				t.Fatalf("%T: timed out after %v", c, d)
			}
			// Moving the deadline while a Read is blocked.
			c.SetReadDeadline(time.Now().Add(time.Hour))
			go func() {
				time.Sleep(time.Second)
				c.SetReadDeadline(time.Now().Add(50 * time.Millisecond))
			}()
			t1 := time.Now()
			if _, err := c.Read(make([]byte, 8)); !isTimeout(err) || time.Since(t1) != 1050*time.Millisecond {
				t.Fatalf("%T: %v after %v", c, err, time.Since(t1))
			}
			// No deadline: the reader blocks durably until data arrive.
			c.SetReadDeadline(time.Time{})
			got := make(chan string, 1)
			go func() {
				p := make([]byte, 8)
				n, _ := c.Read(p)
				got <- string(p[:n])
			}()
			time.Sleep(time.Minute)
			synctest.Wait()
			select {
			case s := <-got:
				t.Fatalf("Read returned %q without data", s)
			default:
			}
			switch c := c.(type) {
			case *Datagram:
				c.Inject([]byte("x"))
			case *Stream:
				c.Inject([]byte("x"))
			}
			synctest.Wait()
			if s := <-got; s != "x" {
				t.Fatalf("got %q", s)
			}
			// A write deadline in the past makes Write fail like a real conn.
			c.SetWriteDeadline(time.Now())
			if _, err := c.Write([]byte{1}); !isTimeout(err) {
				t.Fatalf("write: %v", err)
			}
			c.SetDeadline(time.Now().Add(time.Hour)) // leaves a pending timer behind
		}
		if time.Since(start) < 2*time.Minute {
			t.Fatal("virtual clock did not advance")
		}
	})
}

// With EarlyDeadline a read deadline wins the tie against a timer set for the
// same instant, and re-arming relative to time.Now() does not drift.
func TestSynctestEarlyDeadline(t *testing.T) {
	synctest.Test(t, func(t *testing.T) {
		start := time.Now()
		c := NewStream()
		c.EarlyDeadline = true
		var order []string
		for k := 1; k <= 50; k++ {
			time.AfterFunc(time.Until(start.Add(time.Duration(k)*100*time.Millisecond)), func() { order = append(order, "timer") })
			c.SetReadDeadline(time.Now().Add(100 * time.Millisecond))
			if _, err := c.Read(make([]byte, 1)); !isTimeout(err) {
				t.Fatal(err)
			}
			order = append(order, "read")
			if want := time.Duration(k)*100*time.Millisecond - time.Nanosecond; time.Since(start) != want {
				t.Fatalf("tick %d at %v, want %v", k, time.Since(start), want)
			}
		}
		time.Sleep(time.Nanosecond)
		synctest.Wait()
		for i, s := range order {
			if want := []string{"read", "timer"}[i%2]; s != want || len(order) != 100 {
				t.Fatalf("order %v", order)
			}
		}
	})
}
