// Package memconn provides in-memory net.Conn implementations that can be used
// inside a testing/synctest bubble: readers block on a sync.Cond (a "durable"
// block for synctest) and deadlines are time.AfterFunc timers, so they follow
// the bubble's fake clock. Create the connections inside the bubble.
//
// Datagram preserves message boundaries (UDP-like); Stream is a byte stream
// (TCP-like). In both, Write never blocks: it reports the written bytes to the
// OnWrite callback synchronously, in the writer's goroutine.
package memconn

import (
	"io"
	"net"
	"os"
	"sync"
	"time"
)

// Addr is a dummy net.Addr.
type Addr string

func (a Addr) Network() string { return "mem" }
func (a Addr) String() string  { return string(a) }

// timeoutError is what Read/Write return when a deadline has passed. It is a
// net.Error with Timeout() and Temporary() both true, like the error of a real
// network connection, and errors.Is(err, os.ErrDeadlineExceeded) holds.
type timeoutError struct{}

func (timeoutError) Error() string        { return "memconn: i/o timeout" }
func (timeoutError) Timeout() bool        { return true }
func (timeoutError) Temporary() bool      { return true }
func (timeoutError) Is(target error) bool { return target == os.ErrDeadlineExceeded }

// ErrTimeout is returned by Read and Write after the respective deadline.
var ErrTimeout net.Error = timeoutError{}

// base is the state common to both flavours: the lock/cond a reader waits on,
// deadlines and the closed flag.
type base struct {
	mu      sync.Mutex
	cond    *sync.Cond
	closed  bool
	rdl     time.Time
	wdl     time.Time
	rtimer  *time.Timer
	OnClose func() // called once, by the first Close

	// EarlyDeadline makes a read deadline t expire one nanosecond before t
	// (t first rounded up to a whole microsecond). In a synctest bubble this
	// decides ties deterministically: a Read whose deadline coincides with
	// other timers (all set at whole milliseconds) times out just before
	// them instead of in an order chosen by the scheduler. Thanks to the
	// rounding, a caller that re-arms with time.Now().Add(d) after every
	// timeout (bisquitt's ConnWithContext) does not drift: its deadlines stay
	// at start + k*d - 1ns.
	EarlyDeadline bool
	Local         net.Addr
	Remote        net.Addr
}

func (c *base) init(local, remote string) {
	c.cond = sync.NewCond(&c.mu)
	c.Local, c.Remote = Addr(local), Addr(remote)
}

func (c *base) LocalAddr() net.Addr  { return c.Local }
func (c *base) RemoteAddr() net.Addr { return c.Remote }

func expired(dl time.Time) bool { return !dl.IsZero() && !time.Now().Before(dl) }

// wake makes a blocked Read re-evaluate its conditions.
func (c *base) wake() {
	c.mu.Lock()
	c.cond.Broadcast()
	c.mu.Unlock()
}

func (c *base) SetReadDeadline(t time.Time) error {
	c.mu.Lock()
	defer c.mu.Unlock()
	if c.closed {
		return net.ErrClosed
	}
	if c.rtimer != nil {
		c.rtimer.Stop()
		c.rtimer = nil
	}
	if c.EarlyDeadline && !t.IsZero() {
		if r := t.Truncate(time.Microsecond); r.Equal(t) {
			t = r.Add(-time.Nanosecond)
		} else {
			t = r.Add(time.Microsecond - time.Nanosecond)
		}
	}
	c.rdl = t
	if d := time.Until(t); !t.IsZero() && d > 0 {
		c.rtimer = time.AfterFunc(d, c.wake)
	}
	c.cond.Broadcast()
	return nil
}

func (c *base) SetWriteDeadline(t time.Time) error {
	c.mu.Lock()
	defer c.mu.Unlock()
	if c.closed {
		return net.ErrClosed
	}
	c.wdl = t
	return nil
}

func (c *base) SetDeadline(t time.Time) error {
	if err := c.SetReadDeadline(t); err != nil {
		return err
	}
	return c.SetWriteDeadline(t)
}

// Close closes the connection: a blocked Read returns net.ErrClosed, as do all
// later Read and Write calls. The first Close calls OnClose.
func (c *base) Close() error {
	c.mu.Lock()
	if c.closed {
		c.mu.Unlock()
		return net.ErrClosed
	}
	c.closed = true
	if c.rtimer != nil {
		c.rtimer.Stop()
	}
	c.cond.Broadcast()
	onClose := c.OnClose
	c.mu.Unlock()
	if onClose != nil {
		onClose()
	}
	return nil
}

// Closed reports whether Close was called.
func (c *base) Closed() bool {
	c.mu.Lock()
	defer c.mu.Unlock()
	return c.closed
}

// writeCheck is the common prologue of Write.
func (c *base) writeCheck() error {
	c.mu.Lock()
	defer c.mu.Unlock()
	if c.closed {
		return net.ErrClosed
	}
	if expired(c.wdl) {
		return ErrTimeout
	}
	return nil
}

// waitRead blocks (c.mu held) until ready() holds or the connection is closed
// or the read deadline passes; it returns nil only in the first case.
func (c *base) waitRead(ready func() bool) error {
	for {
		switch {
		case c.closed:
			return net.ErrClosed
		case ready():
			return nil
		case expired(c.rdl):
			return ErrTimeout
		}
		c.cond.Wait()
	}
}

// Datagram is a message-preserving connection.
type Datagram struct {
	base
	queue [][]byte

	// OnWrite, if set, is called by Write with a copy of the datagram.
	OnWrite func(b []byte)
	// Peer, if set, receives what is written (subject to Deliver).
	Peer *Datagram
	// Deliver, if set, decides the fate of a datagram on its way to Peer: it
	// returns the datagrams to inject (none = loss, two = duplication, ...).
	Deliver func(b []byte) [][]byte
}

func NewDatagram() *Datagram {
	c := &Datagram{}
	c.init("mem-dgram-local", "mem-dgram-remote")
	return c
}

// DatagramPair returns two connected datagram connections.
func DatagramPair() (*Datagram, *Datagram) {
	a, b := NewDatagram(), NewDatagram()
	a.Peer, b.Peer = b, a
	return a, b
}

// Inject queues a datagram (copied) for the local reader. Datagrams injected
// into a closed connection are lost.
func (c *Datagram) Inject(b []byte) {
	c.mu.Lock()
	defer c.mu.Unlock()
	if !c.closed {
		c.queue = append(c.queue, append([]byte{}, b...))
		c.cond.Broadcast()
	}
}

// Read returns exactly one datagram, truncated to len(p).
func (c *Datagram) Read(p []byte) (int, error) {
	c.mu.Lock()
	defer c.mu.Unlock()
	if err := c.waitRead(func() bool { return len(c.queue) > 0 }); err != nil {
		return 0, err
	}
	n := copy(p, c.queue[0])
	c.queue = c.queue[1:]
	return n, nil
}

func (c *Datagram) Write(b []byte) (int, error) {
	if err := c.writeCheck(); err != nil {
		return 0, err
	}
	if c.OnWrite != nil {
		c.OnWrite(append([]byte{}, b...))
	}
	if c.Peer != nil {
		out := [][]byte{b}
		if c.Deliver != nil {
			out = c.Deliver(append([]byte{}, b...))
		}
		for _, d := range out {
			c.Peer.Inject(d)
		}
	}
	return len(b), nil
}

// Stream is a byte-stream connection.
type Stream struct {
	base
	buf []byte
	eof bool

	// OnWrite, if set, is called by Write with a copy of the bytes.
	OnWrite func(b []byte)
}

func NewStream() *Stream {
	c := &Stream{}
	c.init("mem-stream-local", "mem-stream-remote")
	return c
}

// Inject appends bytes for the local reader (ignored after CloseRemote/Close).
func (c *Stream) Inject(b []byte) {
	c.mu.Lock()
	defer c.mu.Unlock()
	if !c.closed && !c.eof {
		c.buf = append(c.buf, b...)
		c.cond.Broadcast()
	}
}

// CloseRemote simulates the remote end closing the stream: Read returns io.EOF
// once the buffered bytes are consumed.
func (c *Stream) CloseRemote() {
	c.mu.Lock()
	defer c.mu.Unlock()
	c.eof = true
	c.cond.Broadcast()
}

// Read returns the available bytes (at most len(p)); it blocks when there are none.
func (c *Stream) Read(p []byte) (int, error) {
	c.mu.Lock()
	defer c.mu.Unlock()
	if len(p) == 0 {
		return 0, nil
	}
	if err := c.waitRead(func() bool { return len(c.buf) > 0 || c.eof }); err != nil {
		return 0, err
	}
	if len(c.buf) == 0 {
		return 0, io.EOF
	}
	n := copy(p, c.buf)
	c.buf = c.buf[n:]
	return n, nil
}

func (c *Stream) Write(b []byte) (int, error) {
	if err := c.writeCheck(); err != nil {
		return 0, err
	}
	if c.OnWrite != nil {
		c.OnWrite(append([]byte{}, b...))
	}
	return len(b), nil
}

var (
	_ net.Conn = (*Datagram)(nil)
	_ net.Conn = (*Stream)(nil)
)
