// drv_conc — real-time, real-goroutine stress of the transaction types (property C18): the
// schedules a sequential driver cannot produce.  A retry timer with a zero delay fires while
// Success()/Fail() completes the transaction; the completion callback is slow so that the window
// between "completion started" and "Done closed" is wide.  On correct code nothing can ever be
// reported: a retry callback that observes Done closed, a completion callback that runs twice and
// an Err that changes after Done are violations of C18 on the schedule that just happened.
//
// Output (one line per kind):  CONC <kind> rounds=<n> callback_after_done=<n> finally_not_once=<n> err_changed=<n>
package main

import (
	"context"
	"errors"
	"flag"
	"fmt"
	"sync/atomic"
	"time"

	"github.com/energomonitor/bisquitt/transactions"
)

func retryRounds(n int, fail bool) (late, finallyBad, errChanged int32) {
	for i := 0; i < n; i++ {
		var fin int32
		var tx *transactions.RetryTransaction
		tx = transactions.NewRetryTransaction(context.Background(), 0, 1<<30,
			func(data interface{}) error {
				select {
				case <-tx.Done():
					atomic.AddInt32(&late, 1)
				default:
				}
				return nil
			},
			func() { atomic.AddInt32(&fin, 1); time.Sleep(time.Millisecond) },
		)
		tx.Proceed(nil, nil)
		time.Sleep(time.Duration(i%7) * 50 * time.Microsecond)
		e1 := errors.New("first")
		if fail {
			tx.Fail(e1)
		} else {
			tx.Success()
		}
		<-tx.Done()
		err0 := tx.Err()
		// a second completion attempt must not change anything
		tx.Fail(errors.New("second"))
		tx.Success()
		time.Sleep(500 * time.Microsecond)
		if tx.Err() != err0 {
			errChanged++
		}
		if atomic.LoadInt32(&fin) != 1 {
			finallyBad++
		}
	}
	return
}

func timedRounds(n int) (finallyBad, errChanged int32) {
	for i := 0; i < n; i++ {
		var fin int32
		tx := transactions.NewTimedTransaction(context.Background(), time.Duration(i%5)*20*time.Microsecond,
			func() { atomic.AddInt32(&fin, 1); time.Sleep(200 * time.Microsecond) })
		time.Sleep(time.Duration(i%3) * 30 * time.Microsecond)
		tx.Success()
		<-tx.Done()
		err0 := tx.Err()
		tx.Fail(errors.New("late"))
		time.Sleep(300 * time.Microsecond)
		if tx.Err() != err0 {
			errChanged++
		}
		if atomic.LoadInt32(&fin) != 1 {
			finallyBad++
		}
	}
	return
}

func main() {
	n := flag.Int("n", 300, "rounds per kind")
	flag.Parse()
	l, f, e := retryRounds(*n, false)
	fmt.Printf("CONC retry-success rounds=%d callback_after_done=%d finally_not_once=%d err_changed=%d\n", *n, l, f, e)
	l, f, e = retryRounds(*n, true)
	fmt.Printf("CONC retry-fail rounds=%d callback_after_done=%d finally_not_once=%d err_changed=%d\n", *n, l, f, e)
	f, e = timedRounds(*n)
	fmt.Printf("CONC timed rounds=%d callback_after_done=0 finally_not_once=%d err_changed=%d\n", *n, f, e)
}
