module verifharness

go 1.26

require github.com/energomonitor/bisquitt v0.0.0

require gopkg.in/yaml.v3 v3.0.0-20210107192922-496545a6307b // indirect

replace github.com/energomonitor/bisquitt => /repo
