// Package vh holds helpers shared by the correspondence drivers: a stable PRNG,
// hex (de)serialisation and the canonical text form of predefined-topic maps.
package vh

import (
	"encoding/hex"
	"fmt"
	"sort"
	"strconv"
	"strings"

	"github.com/energomonitor/bisquitt/topics"
)

// Rng is splitmix64: every random choice of a driver derives from one state.
type Rng struct{ s uint64 }

func NewRng(seed uint64) *Rng { return &Rng{s: seed*0x9E3779B97F4A7C15 + 0x1234567} }

func (r *Rng) U64() uint64 {
	r.s += 0x9E3779B97F4A7C15
	z := r.s
	z = (z ^ (z >> 30)) * 0xBF58476D1CE4E5B9
	z = (z ^ (z >> 27)) * 0x94D049BB133111EB
	return z ^ (z >> 31)
}

// Intn returns a value in [0,n).
func (r *Rng) Intn(n int) int {
	if n <= 0 {
		return 0
	}
	return int(r.U64() % uint64(n))
}

func (r *Rng) Bool() bool { return r.U64()&1 == 1 }

func (r *Rng) Bytes(n int) []byte {
	b := make([]byte, n)
	for i := range b {
		b[i] = byte(r.U64())
	}
	return b
}

// Hex renders a byte string as "x" + hex digits ("x" alone is the empty string).
func Hex(b []byte) string { return "x" + hex.EncodeToString(b) }

func HexS(s string) string { return Hex([]byte(s)) }

func UnHex(s string) ([]byte, error) {
	if !strings.HasPrefix(s, "x") {
		return nil, fmt.Errorf("bad hex token %q", s)
	}
	return hex.DecodeString(s[1:])
}

func MustUnHex(s string) []byte {
	b, err := UnHex(s)
	if err != nil {
		panic(err)
	}
	return b
}

// PredefString is the canonical text of a PredefinedTopics map:
// client:id=name,id=name;client:...   ("~" for the empty map), sorted.
func PredefString(t topics.PredefinedTopics) string {
	if len(t) == 0 {
		return "~"
	}
	clients := make([]string, 0, len(t))
	for c := range t {
		clients = append(clients, c)
	}
	sort.Strings(clients)
	var parts []string
	for _, c := range clients {
		ids := make([]int, 0, len(t[c]))
		for id := range t[c] {
			ids = append(ids, int(id))
		}
		sort.Ints(ids)
		var es []string
		for _, id := range ids {
			es = append(es, strconv.Itoa(id)+"="+HexS(t[c][uint16(id)]))
		}
		parts = append(parts, HexS(c)+":"+strings.Join(es, ","))
	}
	return strings.Join(parts, ";")
}

// ParsePredef parses PredefString output.
func ParsePredef(s string) (topics.PredefinedTopics, error) {
	t := topics.PredefinedTopics{}
	if s == "~" {
		return t, nil
	}
	for _, part := range strings.Split(s, ";") {
		kv := strings.SplitN(part, ":", 2)
		if len(kv) != 2 {
			return nil, fmt.Errorf("bad predef part %q", part)
		}
		c, err := UnHex(kv[0])
		if err != nil {
			return nil, err
		}
		if _, ok := t[string(c)]; !ok {
			t[string(c)] = map[uint16]string{}
		}
		if kv[1] == "" {
			continue
		}
		for _, e := range strings.Split(kv[1], ",") {
			in := strings.SplitN(e, "=", 2)
			if len(in) != 2 {
				return nil, fmt.Errorf("bad predef entry %q", e)
			}
			n, err := UnHex(in[1])
			if err != nil {
				return nil, err
			}
			// "lo-hi=name": the same name for a whole range of IDs
			lo, hi, isRange := strings.Cut(in[0], "-")
			if !isRange {
				hi = lo
			}
			a, err := strconv.ParseUint(lo, 10, 16)
			if err != nil {
				return nil, err
			}
			b, err := strconv.ParseUint(hi, 10, 16)
			if err != nil {
				return nil, err
			}
			for id := a; id <= b; id++ {
				t[string(c)][uint16(id)] = string(n)
			}
		}
	}
	return t, nil
}
